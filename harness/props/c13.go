package props

import (
	"bytes"
	"encoding/binary"
	"fmt"
	"runtime"
	"runtime/debug"
	"strings"
	"testing"
	"testing/synctest"
	"time"

	"github.com/emmansun/gmsm/verifhook"

	"verif/harness/sim"
)

// C13: a producer builds ONE valid artefact (signature, ciphertext, key
// encoding, container ...) with the library's own producer; the simulated
// medium (storage / transport) and a Byzantine sender derive hostile inputs
// from it by ENUMERATED faults; every hostile input is delivered to every
// consumer entry point that accepts that artefact type. The only oracle is
// "the call returned (a value or an error)": a recovered panic is a
// violation, an over-read of a guarded buffer kills the worker (attributed by
// the driver through its write-ahead log). No coverage feedback, no free-form
// fuzzing: the input set of a run is a pure function of (type, variant, fault
// class, slice).

func init() {
	register(&Prop{
		ID:         "C13",
		Level:      "fault_enumeration",
		Nodes:      func(tier string) []string { return []string{"avx2", "purego"} },
		Cross:      true,
		GlobalRand: true,
		Gen:        genC13,
		Exec:       execC13,
		QuickSecs:  60, ThoroughSecs: 900, RunsPerJob: 40,
		HangSecs: 40,
		Rule: "a run = make(artefact type, variant) followed by ONE slice of ONE fault class: " +
			"trunc(slice) = every truncation length of the slice (torn write; incl. the empty and the 1- and 2-byte remnants); " +
			"subst(slice) = every single-byte substitution at each offset of the slice with each value of {0x00, 0xFF, b^1, b^0x80, b+1, b-1, 0x80, 0x30} (bit rot); " +
			"lie(slice) = Byzantine producer: for every item of the slice, item = (TLV element of the artefact's DER structure | field of a raw layout) x lie variant {grow/shrink by 1,2,8,15,16,17, empty, delete, duplicate, swap-with-next, tag := one of 10 tags, wrap in SEQUENCE, zero, keep first 1 / 2 content bytes}, re-encoded with CONSISTENT DER lengths (and re-wrapped in PEM / base64 / BER-indefinite / 81-long-form where the artefact is delivered in that form), plus per-type Byzantine-sender items with consistent integrity fields (SM9 C2 of every length 0..48 with a recomputed C3; SM9 mode field := every mode; enveloped keys with a mis-sized symmetric key; each password-KDF cost parameter := one of 12 bounded values 0,1,2,3,5,17,127,-1,-128,255,256,empty); " +
			"multi(n, seed) = n seeded sequences of 2-4 storage faults (lost range zero-filled, duplicated range, misdirected write = splice with a second artefact of the same type, two ranges swapped); " +
			"tiny(slice) = the empty input, all 1-byte and 2-byte inputs over fixed byte sets and a list of short DER/BER stubs (30 80, 30 81, 1f 80, 04, 03 01 00 ...). " +
			"The artefact is a deterministic function of (type, variant) (global random source seeded from them), slice indices are taken modulo the number of slices of the actual artefact and slices tile the whole enumeration space, so that over enough run indices every artefact instance is enumerated exhaustively in the classes trunc, subst, lie and tiny (multi is a seeded sample). " +
			"Every hostile input goes to every consumer of its artefact type with the right and with unrelated keys / passwords; raw (non-DER) inputs are delivered from a buffer flush against a PROT_NONE page in one delivery out of four. " +
			"Oracle: each call returns. abstract history = (type, variant, fault class, slice index); non-trivial = at least one hostile input was delivered; distinct = distinct abstract histories",
		Real: []string{"sm2 (VerifyASN1, VerifyASN1WithSM2, RecoverPublicKeysFromSM2Signature, Decrypt, PrivateKey.Decrypt, AdjustCiphertextSplicingOrder, ASN1Ciphertext2Plain, PlainCiphertext2ASN1, NewPublicKey, NewPrivateKey, ParseEnvelopedPrivateKey)",
			"ecdh (P256().NewPublicKey, NewPrivateKey)",
			"sm9 (VerifyASN1, Decrypt, DecryptASN1, EncryptPrivateKey.Decrypt, UnmarshalSM9KeyPackage, UnwrapKey, EncryptPrivateKey.UnwrapKey, all Unmarshal*ASN1 / Unmarshal*Raw / Parse*PEM)",
			"smx509 (ParseCertificate(s), ParseCertificatePEM, CertPool.AppendCertsFromPEM, Certificate.Verify, ParseCertificateRequest(PEM), ParseCFCACertificateRequest, ParseCSRResponse, ParseRevocationList, ParseCRL, ParseDERCRL, ParsePKCS8PrivateKey, ParsePKIXPublicKey, ParsePKCS1*, ParseSM2PrivateKey, ParseECPrivateKey, ParseTypedECPrivateKey, DecryptPEMBlock)",
			"pkcs8 (ParsePrivateKey, ParsePKCS8PrivateKey*, ParseSM9*)", "pkcs (every registered cipher and KDF through pkcs8 / pkcs7; PBES1)",
			"pkcs7 (Parse incl. the BER reader, Verify*, Decrypt, DecryptCFCA, DecryptUsingPSK, DecryptAndVerify(OnlyOne), GetRecipients, GetOnlySigner, UnmarshalSignedAttribute)",
			"cfca (ParseSM2, ParseEscrowPrivateKey, ParseCertificateRequest, DecryptBySM4CBC, VerifyMessageAttach/Detach, VerifyDigestDetach, OpenEnvelopedMessage(Legacy))",
			"padding (Unpad of PKCS7 / ANSI X9.23 / ISO 9797 M2 / M3 for block sizes 1, 8, 16, 32, 255)"},
		Stubs: []string{"storage medium: torn write, bit rot, lost / duplicated / swapped range, misdirected write", "Byzantine producer: element-level lies re-encoded with consistent lengths (harness TLV reader), consistent-MAC SM9 ciphertexts",
			"wall clock: testing/synctest fake clock parked at 2030-01-01 (signing time of produced PKCS#7, certificate validity checks)", "global random source seeded from (type, variant)"},
		Assume: []string{"structure-aware mutation (lie class) is an enumerated fault of a sending party, not a search: no coverage feedback is used anywhere",
			"inputs that no bounded fault sequence derives from a valid artefact are out of reach; coverage-guided fuzzing named in the property's quantifier is NOT done",
			"password-KDF cost parameters are not free fault targets: the INTEGER elements PBKDF2 iterationCount, scrypt N / r / p and PBES1 iterationCount (located with the TLV reader; tag, length and value octets) are excluded from substitutions and from element lies (also as swap partner), because an altered cost legitimately makes a call expensive; producers use costs <= 16 and the lie class sets each such parameter to a fixed list of bounded values (<= 256) instead. Truncation, the seeded multi-fault class and structural lies on OTHER elements can still reach a cost parameter (observed: a swap that turns the INTEGER length octet 01 into 05 gives 2^36 PBKDF2 iterations, and encoding/asn1 ignores the displaced trailing elements); therefore every hostile password-based container is first decoded by the harness with encoding/asn1 in the same structure shapes as the library, and inputs naming more than 2^16 iterations / scrypt N > 2^12, r or p > 2^9 are not delivered (counter probe:kdf-cost-guard-skipped)",
			"no wall-clock hang detection inside a run (non-deterministic); work is bounded by construction (artefacts <= 2 KiB, fixed small KDF costs); a real hang shows as a batch watchdog in the driver",
			"documented panicking preconditions of cipher-level APIs (cipher.BlockMode.CryptBlocks, padding constructors) are not called directly; exported parsers / decrypters that reach them with attacker-controlled sizes are in scope",
			"accepting a hostile input (err == nil) is not judged here (C06/C07/C10/C14-C16 judge tampering); only the per-consumer accept counts enter the trace for cross-node comparison"},
	})
}

var c13Now = time.Date(2030, 1, 1, 0, 0, 0, 0, time.UTC)

const (
	c13ClsTrunc = iota
	c13ClsSubst
	c13ClsLie
	c13ClsMulti
	c13ClsTiny
)

// number of hostile inputs per slice, before multiplication by the number of consumers
const (
	c13MultiPerSlice = 64   // seeded fault sequences per multi run
	c13MultiSlices   = 1    // weight of the (sampled, not tiled) multi class of one artefact
	c13MaxWidth      = 4096 // widest slice an op may ask for (hand-written / shrunk programs)
)

func c13Slices(n, w int) int {
	if n <= 0 {
		return 0
	}
	if w < 1 {
		w = 1
	}
	return (n + w - 1) / w
}

// genC13 picks (type, variant, class, slice) with probability proportional
// to the static size estimates of the catalogue, so that all cells of the
// enumeration space are visited about equally often.
func genC13(r *sim.Rand, tier string) *sim.Program {
	p := &sim.Program{Prop: "C13"}
	var weights []int
	var tv [][2]int
	for i, t := range c13Types {
		for v := 0; v < t.variants; v++ {
			weights = append(weights, t.cells(v))
			tv = append(tv, [2]int{i, v})
		}
	}
	x := tv[r.Weighted(weights...)]
	ti, v := x[0], x[1]
	t := c13Types[ti]
	p.SetC("grand", 1+ti*64+v)
	p.Add("make", ti, v)
	cw, wd := t.classCells(v), t.widths(v)
	cls := r.Weighted(cw[:]...)
	k := r.Intn(1 << 20)
	switch cls {
	case c13ClsTrunc:
		p.Add("trunc", k, wd[0])
	case c13ClsSubst:
		p.Add("subst", k, wd[1])
	case c13ClsLie:
		p.Add("lie", k, wd[2])
	case c13ClsMulti:
		p.Add("multi", c13MultiPerSlice, r.Intn(1<<16))
	default:
		p.Add("tiny", k, wd[3])
	}
	return p
}

// c13Site extracts the panic site: the chain of library frames (innermost
// first, "file:line (function)") preceded by the innermost non-runtime frame
// when that one belongs to the standard library.
func c13Site() string {
	pcs := make([]uintptr, 64)
	n := runtime.Callers(3, pcs)
	frames := runtime.CallersFrames(pcs[:n])
	var chain []string
	first := true
	for {
		f, more := frames.Next()
		fn := f.Function
		switch {
		case strings.HasPrefix(fn, "runtime.") || fn == "":
		case strings.Contains(fn, "verif/harness"):
			more = false
		default:
			if strings.Contains(fn, "github.com/emmansun/gmsm") || first {
				chain = append(chain, fmt.Sprintf("%s:%d (%s)", f.File, f.Line, fn))
			}
			first = false
		}
		if !more || len(chain) >= 6 {
			break
		}
	}
	return strings.Join(chain, " <- ")
}

type c13Panic struct {
	val  any
	site string
}

func c13Call(f func() bool) (ok bool, pv *c13Panic) {
	defer func() {
		if r := recover(); r != nil {
			pv = &c13Panic{val: r, site: c13Site()}
		}
	}()
	return f(), nil
}

func execC13(t *testing.T, p *sim.Program, c *sim.Ctx) {
	var pan any
	var stack string
	synctest.Test(t, func(t *testing.T) {
		defer func() {
			if r := recover(); r != nil {
				pan = r
				stack = string(debug.Stack())
			}
		}()
		execC13Bubble(p, c)
	})
	if pan != nil {
		if len(stack) > 1500 {
			stack = stack[:1500]
		}
		kind := "?"
		if c.OpsDone-1 >= 0 && c.OpsDone-1 < len(p.Ops) {
			kind = p.Ops[c.OpsDone-1].K
		}
		c.V = nil
		c.Fail("panic", c.OpsDone-1, kind, "panic outside a delivery: %v\n%s", pan, stack)
	}
}

type c13World struct {
	c       *sim.Ctx
	fx      *c13Fixtures
	guard   *sim.Guarded
	nDeliv  int
	skipped int // inputs withheld by the KDF cost guard in the current op
	// per-op tallies
	okCnt, allCnt []int
}

const c13GuardMax = 4096

func (w *c13World) resetTally(a *c13Art) {
	w.okCnt = make([]int, len(a.cons))
	w.allCnt = make([]int, len(a.cons))
	w.skipped = 0
}

// deliver hands one hostile input to every consumer of the artefact. It
// returns false after a violation.
func (w *c13World) deliver(opi int, opk string, a *c13Art, in []byte, fault string, pos int) bool {
	c := w.c
	if a.costGuard && !c13CostOK(in) {
		c.Hit("probe:kdf-cost-guard-skipped")
		w.skipped++
		return true
	}
	var buf []byte
	if a.raw && w.nDeliv%4 == 0 && len(in) <= c13GuardMax {
		if w.guard == nil {
			w.guard = sim.GuardEnd(c13GuardMax)
		}
		buf = w.guard.Buf[c13GuardMax-len(in):]
		copy(buf, in)
		c.Hit("probe:guard-page-delivery")
	} else {
		buf = make([]byte, len(in))
		copy(buf, in)
	}
	w.nDeliv++
	var pre any
	for ci := range a.cons {
		cons := &a.cons[ci]
		if cons.needPre && pre == nil {
			w.allCnt[ci]++
			continue
		}
		ok, pv := c13Call(func() bool {
			if cons.pf != nil {
				v, ok := cons.pf(buf)
				if ok {
					pre = v
				}
				return ok
			}
			return cons.f(buf, pre)
		})
		if pv != nil {
			x := in
			more := ""
			if len(x) > 300 {
				more = fmt.Sprintf("...(%d bytes)", len(x))
				x = x[:300]
			}
			c.Fail("panic", opi, opk, "entry point %s, artefact %s, fault %s at %d: %v; site %s; input=%x%s", cons.name, a.name, fault, pos, pv.val, pv.site, x, more)
			return false
		}
		w.allCnt[ci]++
		if ok {
			w.okCnt[ci]++
		}
		// the callee may scribble on its argument (allowed); restore for the next consumer
		if !bytes.Equal(buf, in) {
			copy(buf, in)
			c.Hit("probe:consumer-modified-input")
		}
	}
	return true
}

func (w *c13World) flushTally(a *c13Art, n int, cls string) {
	c := w.c
	n -= w.skipped
	calls, oks := 0, 0
	for ci := range a.cons {
		var b [16]byte
		k := binary.PutUvarint(b[:], uint64(w.okCnt[ci]))
		k += binary.PutUvarint(b[k:], uint64(w.allCnt[ci]))
		c.Out(a.cons[ci].name, b[:k])
		calls += w.allCnt[ci]
		oks += w.okCnt[ci]
	}
	if n > 0 {
		c.Nontriv = true
		c.HitN("fault:"+cls, n)
		c.HitN("art:"+a.typ, n)
		c.HitN("calls", calls)
		c.HitN("probe:hostile-input-accepted", oks)
	}
}

func c13Mod(x, n int) int {
	if n <= 0 {
		return 0
	}
	return ((x % n) + n) % n
}

func c13SubstValues(b byte) [8]byte {
	return [8]byte{0x00, 0xFF, b ^ 1, b ^ 0x80, b + 1, b - 1, 0x80, 0x30}
}

func execC13Bubble(p *sim.Program, c *sim.Ctx) {
	verifhook.SetMaybeReadDecider(func() bool { return false })
	defer verifhook.SetMaybeReadDecider(nil)
	if d := time.Until(c13Now); d > 0 {
		time.Sleep(d) // fake clock: parks the bubble's time at 2030-01-01
	}
	fx, err := c13GetFixtures()
	if err != nil {
		c.Fail("setup", -1, "fixtures", "%v", err)
		return
	}
	w := &c13World{c: c, fx: fx}
	defer func() {
		if w.guard != nil {
			w.guard.Free()
		}
	}()
	var art *c13Art
	var typ *c13Type
	variant := 0
	for i, op := range p.Ops {
		if c.Failed() {
			return
		}
		c.OpsDone++
		if op.K == "make" {
			typ = c13Types[c13Mod(op.Int(0), len(c13Types))]
			variant = c13Mod(op.Int(1), typ.variants)
			a, err := typ.build(w, variant)
			if err != nil || a == nil || len(a.cons) == 0 {
				c.Fail("setup", i, op.K, "producer of %s/%d failed: %v", typ.name, variant, err)
				return
			}
			a.typ = typ.name
			a.name = fmt.Sprintf("%s/%d", typ.name, variant)
			a.finish()
			art = a
			c.Abs("make", typ.name, variant)
			// baseline: the valid artefact goes to every consumer (counted, not judged)
			w.resetTally(a)
			if !w.deliver(i, op.K, a, a.data, "none", -1) {
				return
			}
			for ci := range a.cons {
				if w.okCnt[ci] > 0 {
					c.Hit("baseline:accepted")
				} else {
					c.Hit("baseline:refused")
					if a.cons[ci].wantOK {
						c.Hit("baseline:refused-unexpectedly:" + a.name + ":" + a.cons[ci].name)
					}
				}
			}
			w.flushTally(a, 0, "none")
			continue
		}
		if art == nil {
			continue
		}
		a := art
		w.resetTally(a)
		n := 0
		switch op.K {
		case "trunc":
			wd := op.Int(1)
			if wd < 1 || wd > c13MaxWidth {
				wd = 64
			}
			ns := c13Slices(len(a.data), wd)
			idx := c13Mod(op.Int(0), ns)
			from, to := idx*wd, idx*wd+wd
			if to > len(a.data) {
				to = len(a.data)
			}
			c.Abs("trunc", idx)
			for l := from; l < to; l++ {
				if !w.deliver(i, op.K, a, a.data[:l], "trunc", l) {
					return
				}
				n++
			}
		case "subst":
			wd := op.Int(1)
			if wd < 1 || wd > c13MaxWidth {
				wd = 16
			}
			ns := c13Slices(len(a.data), wd)
			idx := c13Mod(op.Int(0), ns)
			from, to := idx*wd, idx*wd+wd
			if to > len(a.data) {
				to = len(a.data)
			}
			c.Abs("subst", idx)
			m := append([]byte{}, a.data...)
			for off := from; off < to; off++ {
				if a.excluded(off) {
					c.Hit("probe:kdf-cost-byte-skipped")
					continue
				}
				b := a.data[off]
				vals := c13SubstValues(b)
				for vi, v := range vals {
					dup := v == b
					for _, u := range vals[:vi] {
						if u == v {
							dup = true
						}
					}
					if dup {
						continue
					}
					m[off] = v
					if !w.deliver(i, op.K, a, m, fmt.Sprintf("subst(%02x->%02x)", b, v), off) {
						return
					}
					n++
				}
				m[off] = b
			}
		case "lie":
			wd := op.Int(1)
			if wd < 1 || wd > c13MaxWidth {
				wd = 30
			}
			items := a.lieItems()
			ns := c13Slices(items, wd)
			idx := c13Mod(op.Int(0), ns)
			from, to := idx*wd, idx*wd+wd
			if to > items {
				to = items
			}
			c.Abs("lie", idx)
			for it := from; it < to; it++ {
				in, desc := a.lie(it)
				if in == nil {
					continue
				}
				if !w.deliver(i, op.K, a, in, "lie("+desc+")", it) {
					return
				}
				n++
			}
		case "multi":
			cnt := op.Int(0)
			if cnt < 1 {
				cnt = 1
			}
			if cnt > 256 {
				cnt = 256
			}
			seed := op.Int(1)
			c.Abs("multi", seed)
			alt := a.data
			if b, err := typ.build(w, c13Mod(variant+1, typ.variants)); err == nil && b != nil && len(b.data) > 0 {
				alt = b.data
			}
			rr := sim.NewRand(sim.SplitMix64(uint64(seed)*0x9e3779b97f4a7c15 + uint64(len(a.data))))
			for k := 0; k < cnt; k++ {
				in, desc := c13Multi(rr, a.data, alt)
				if !w.deliver(i, op.K, a, in, "multi("+desc+")", k) {
					return
				}
				n++
			}
		case "tiny":
			wd := op.Int(1)
			if wd < 1 || wd > c13MaxWidth {
				wd = 128
			}
			ns := c13Slices(len(c13Tiny), wd)
			idx := c13Mod(op.Int(0), ns)
			from, to := idx*wd, idx*wd+wd
			if to > len(c13Tiny) {
				to = len(c13Tiny)
			}
			c.Abs("tiny", idx)
			for k := from; k < to; k++ {
				in := c13Tiny[k]
				if a.wrapTiny != nil {
					in = a.wrapTiny(in)
				}
				if !w.deliver(i, op.K, a, in, "tiny", k) {
					return
				}
				n++
			}
		default:
			continue
		}
		w.flushTally(a, n, op.K)
	}
}

// c13Multi applies a seeded sequence of 2-4 storage faults.
func c13Multi(r *sim.Rand, data, alt []byte) ([]byte, string) {
	m := append([]byte{}, data...)
	nf := r.Range(2, 4)
	var desc []string
	rng := func(n int) (int, int) {
		if n == 0 {
			return 0, 0
		}
		a := r.Intn(n)
		l := 1 + r.Intn(r.PickInt(1, 2, 4, 8, 16, 32, 64))
		if a+l > n {
			l = n - a
		}
		return a, l
	}
	for f := 0; f < nf; f++ {
		if len(m) == 0 {
			break
		}
		switch r.Intn(4) {
		case 0: // lost write: the range reads back as zeroes
			a, l := rng(len(m))
			for i := a; i < a+l; i++ {
				m[i] = 0
			}
			desc = append(desc, fmt.Sprintf("zero[%d+%d]", a, l))
		case 1: // duplicated range
			a, l := rng(len(m))
			if len(m)+l > 3*len(data)+64 {
				continue
			}
			out := append([]byte{}, m[:a+l]...)
			out = append(out, m[a:a+l]...)
			m = append(out, m[a+l:]...)
			desc = append(desc, fmt.Sprintf("dup[%d+%d]", a, l))
		case 2: // misdirected write: a range of another artefact lands here (same offset), or the tail is the other artefact's tail
			if len(alt) == 0 {
				continue
			}
			if r.Bool() {
				cut := r.Intn(len(m) + 1)
				cut2 := cut
				if cut2 > len(alt) {
					cut2 = len(alt)
				}
				m = append(append([]byte{}, m[:cut]...), alt[cut2:]...)
				desc = append(desc, fmt.Sprintf("splice-tail@%d", cut))
			} else {
				a, l := rng(len(m))
				for i := a; i < a+l && i < len(alt); i++ {
					m[i] = alt[i]
				}
				desc = append(desc, fmt.Sprintf("splice[%d+%d]", a, l))
			}
		default: // two ranges of the same length swapped
			a, l := rng(len(m))
			b := r.Intn(len(m))
			if b+l > len(m) {
				l = len(m) - b
			}
			if a+l > len(m) {
				l = len(m) - a
			}
			if (a < b && a+l > b) || (b < a && b+l > a) {
				if a < b {
					l = b - a
				} else {
					l = a - b
				}
			}
			for i := 0; i < l; i++ {
				m[a+i], m[b+i] = m[b+i], m[a+i]
			}
			desc = append(desc, fmt.Sprintf("swap[%d<->%d+%d]", a, b, l))
		}
	}
	return m, strings.Join(desc, ",")
}

// c13Tiny: the empty input, all 1-byte inputs over S1, all 2-byte inputs over S1 x S2, and short DER / BER stubs.
var c13Tiny = func() [][]byte {
	s1 := []byte{0x00, 0x01, 0x02, 0x03, 0x04, 0x05, 0x06, 0x0c, 0x10, 0x13, 0x17, 0x1f, 0x20, 0x24, 0x2d, 0x30, 0x31, 0x3f, 0x7f, 0x80, 0x81, 0x9f, 0xa0, 0xa1, 0xbf, 0xff}
	s2 := []byte{0x00, 0x01, 0x02, 0x03, 0x10, 0x1f, 0x30, 0x7f, 0x80, 0x81, 0x82, 0x83, 0x84, 0x85, 0x88, 0xff}
	out := [][]byte{{}}
	for _, a := range s1 {
		out = append(out, []byte{a})
	}
	for _, a := range s1 {
		for _, b := range s2 {
			out = append(out, []byte{a, b})
		}
	}
	for _, s := range []string{
		"030100", "030101", "0300", "03020000", "03020004", "0302ff04", "040100", "0400", "020100", "0200", "0500", "300000", "30020000",
		"308000", "30800000", "3080000000", "308100", "30810000", "30820000", "3082000000", "308300", "30830000", "3084000000", "30840000000000", "3084ffffffff", "308480000000", "3085000000", "3088000000",
		"1f8000", "1f800000", "1f808000", "1fff7f00", "1f1f00", "3f8000", "3f800000", "bf1f00", "bf8100", "9f8000",
		"30030201", "3003020100", "300302017f", "30060201000400", "3006040003020004", "30050400030100", "30050400030200", "3003030100", "3003030104", "30020300",
		"30800201000000", "308002010000", "3080020100", "30803080000000", "308030800000", "3080308000", "3080308030800000", "a080", "a08000", "a0800000", "2480", "24800000", "248004000000", "2480040100",
		"30060609", "3009060960864801650304", "300b06092a864886f70d010702", "300f06092a864886f70d010702a08000", "300f06092a864886f70d010702a0020000", "301106092a864886f70d010702a00430020000",
		"300d06092a864886f70d010703a000", "300d06092a864886f70d010706a000", "300c060a2a811ccf550601040202", "300e060a2a811ccf550601040202a000", "3010060a2a811ccf550601040203a0023000",
		"2d2d2d2d2d", "2d2d2d2d2d424547494e20", "2d2d2d2d2d424547494e2058582d2d2d2d2d0a2d2d2d2d2d454e442058582d2d2d2d2d0a",
		"04", "0400000000", "02", "03", "0301", "0302", "0601", "06",
	} {
		out = append(out, unhex(s))
	}
	return out
}()
