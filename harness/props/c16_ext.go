package props

import (
	"bytes"
	"crypto"
	"crypto/ecdsa"
	"crypto/rand"
	"crypto/rsa"
	"encoding/asn1"
	"errors"
	"math/big"
	"time"

	"github.com/emmansun/gmsm/cfca"
	"github.com/emmansun/gmsm/pkcs7"
	"github.com/emmansun/gmsm/sm2"
	"github.com/emmansun/gmsm/smx509"

	"verif/harness/sim"
)

// Extensions of C16: the step-wise EnvelopedData builder with a caller-supplied
// Session, ParseWithSession, post-signing manipulation of SignedData,
// DegenerateCertificate / GetOnlySigner / GetRecipients / UnmarshalSignedAttribute.

// c16Sess is a caller-supplied pkcs7.Session. It hands out a data key that is a
// function of the program (the key ledger), wraps / unwraps through the stateless
// default session and - when masked - stores the data key under a per-session
// mask (a stand-in for a key-handle indirection): a message built with a masked
// session opens only through ParseWithSession with the same session.
type c16Sess struct {
	seed    []byte
	masked  bool
	failGen bool
	failEnc int // index of the EncryptdDataKey call that fails (-1: none)
	failDec bool

	key      []byte // ledger: the data key handed to the library
	genCalls int
	genSize  int
	encCalls int
	encKeyOK bool // every EncryptdDataKey call carried the ledger key
	decCalls int
	decOpts  []any
}

var errC16Sess = errors.New("c16: injected session failure")

func newC16Sess(seed []byte, masked bool) *c16Sess {
	return &c16Sess{seed: append([]byte{}, seed...), masked: masked, failEnc: -1, encKeyOK: true}
}

func (s *c16Sess) mask(n int) []byte {
	m := make([]byte, n)
	if s.masked && n > 0 {
		copy(m, derive(s.seed, "c16mask", n))
		m[0] |= 1
	}
	return m
}

func c16Xor(a, m []byte) []byte {
	out := append([]byte{}, a...)
	for i := range out {
		if i < len(m) {
			out[i] ^= m[i]
		}
	}
	return out
}

func (s *c16Sess) GenerateDataKey(size int) ([]byte, error) {
	s.genCalls++
	s.genSize = size
	if s.failGen {
		return nil, errC16Sess
	}
	if size < 0 || size > 64 {
		return nil, errC16Sess
	}
	s.key = derive(s.seed, "c16dk", size)
	return append([]byte{}, s.key...), nil
}

func (s *c16Sess) EncryptdDataKey(key []byte, cert *smx509.Certificate, opts any) ([]byte, error) {
	call := s.encCalls
	s.encCalls++
	if call == s.failEnc {
		return nil, errC16Sess
	}
	if s.key != nil && !bytes.Equal(key, s.key) {
		s.encKeyOK = false
	}
	return pkcs7.DefaultSession{}.EncryptdDataKey(c16Xor(key, s.mask(len(key))), cert, opts)
}

func (s *c16Sess) DecryptDataKey(key []byte, priv crypto.PrivateKey, cert *smx509.Certificate, opts any) ([]byte, error) {
	s.decCalls++
	s.decOpts = append(s.decOpts, opts)
	if s.failDec {
		return nil, errC16Sess
	}
	k, err := pkcs7.DefaultSession{}.DecryptDataKey(key, priv, cert, opts)
	if err != nil {
		return nil, err
	}
	return c16Xor(k, s.mask(len(k))), nil
}

// c16DirectWrap is the caller's own key wrap (no Session involved): Go crypto/rsa resp. the sm2 package.
func c16DirectWrap(cert *smx509.Certificate, key []byte, legacy bool) ([]byte, error) {
	switch pub := cert.PublicKey.(type) {
	case *rsa.PublicKey:
		return rsa.EncryptPKCS1v15(rand.Reader, pub, key)
	case *ecdsa.PublicKey:
		if pub.Curve != sm2.P256() {
			return nil, errors.New("c16: not an SM2 key")
		}
		if legacy {
			ct, err := sm2.Encrypt(rand.Reader, pub, key, sm2.NewPlainEncrypterOpts(sm2.MarshalUncompressed, sm2.C1C2C3))
			if err != nil {
				return nil, err
			}
			return ct[1:], nil
		}
		return sm2.EncryptASN1(rand.Reader, pub, key)
	}
	return nil, errors.New("c16: unsupported key")
}

// parse is the consumer's entry point: via 0 = Parse, 1 = ParseWithSession(the builder's session, or a fresh
// transparent caller-supplied one), 2 = ParseWithSession(DefaultSession{}), 3 = ParseWithSession(a foreign masked session).
// 4 = ParseWithSession(a transparent session whose DecryptDataKey fails).
// sessionOK tells whether that session can yield the data key of m at all.
func (x *c16X) parse(m *c16Msg, data []byte, via int) (p7 *pkcs7.PKCS7, err error, used *c16Sess, sessionOK bool) {
	builderMasked := m.sess != nil && m.sess.masked
	via = c16Mod(via, 5)
	if via >= 3 && m.kind != c16KEnv {
		via = 1 // only EnvelopedData unwraps through the session: a foreign one is not a fault elsewhere (not judged)
	}
	switch via {
	case 1:
		used = m.sess
		if used == nil {
			used = newC16Sess([]byte("c16 reader"), false)
		}
		x.c.Hit("probe:parse-with-session")
		p7, err = pkcs7.ParseWithSession(used, data)
		return p7, err, used, true
	case 2:
		x.c.Hit("probe:parse-with-session")
		p7, err = pkcs7.ParseWithSession(pkcs7.DefaultSession{}, data)
		return p7, err, nil, !builderMasked
	case 3:
		used = newC16Sess([]byte("c16 foreign session"), true)
		x.c.Hit("probe:parse-with-foreign-session")
		p7, err = pkcs7.ParseWithSession(used, data)
		return p7, err, used, false
	case 4:
		used = newC16Sess([]byte("c16 failing session"), false)
		if m.sess != nil {
			used = newC16Sess(m.sess.seed, m.sess.masked)
		}
		used.failDec = true
		p7, err = pkcs7.ParseWithSession(used, data)
		return p7, err, used, false
	}
	p7, err = pkcs7.Parse(data)
	return p7, err, nil, !builderMasked
}

// ---- step-wise EnvelopedData builder ----

func (x *c16X) doEnvS(o sim.Op) {
	c, w := x.c, x.w
	ci := c16Mod(o.Int(0), len(c16Ciphers))
	sm := o.Int(1)&1 == 1
	skind := c16Mod(o.Int(2), 4)
	rch := o.Int(3)
	sfault := c16Mod(o.Int(4), 6)
	n := o.Int(5)
	if n < 1 {
		n = 1
	}
	if n > 4 {
		n = 4
	}
	content := append([]byte{}, o.Bytes(0)...) // ledger copy
	type rspec struct {
		party, version int
		legacy         bool
	}
	var rs []rspec
	for i := 0; i < n; i++ {
		pi := c16Mod(o.Int(6+3*i), c16NParties)
		dup := false
		for _, q := range rs {
			// the same certificate twice, the same issuer+serial, or the same SubjectKeyIdentifier would make the lookup ambiguous
			if q.party == pi || c16SameIAS(w.parties[q.party].cert, w.parties[pi].cert) {
				dup = true
			}
		}
		if dup {
			continue
		}
		pt := w.parties[pi]
		r := rspec{party: pi, version: c16Mod(o.Int(7+3*i), 3), legacy: o.Int(8+3*i)&1 == 1}
		if pt.kind != c16SM2 {
			r.legacy = false
		}
		rs = append(rs, r)
	}
	var sess *c16Sess
	if skind >= 2 {
		sess = newC16Sess(fitKey(o.Bytes(1), 16), skind == 3)
		switch {
		case sfault == 1:
			sess.failGen = true
		case sfault >= 2 && sfault <= 4:
			sess.failEnc = sfault - 2
		}
	}
	abs := []any{"envs", c16Ciphers[ci].name, sm, skind, sfault, rch != 0, sim.LenClass(len(content), c16Ciphers[ci].block)}
	supported := true
	mixed := false
	var recips []int
	var legacy []bool
	for _, r := range rs {
		pt := w.parties[r.party]
		abs = append(abs, pt.name, r.version, r.legacy)
		if !pt.canRecv || (r.version == 2 && !pt.ski) {
			supported = false
		}
		if r.legacy != rs[0].legacy || r.version != rs[0].version {
			mixed = true
		}
		recips = append(recips, r.party)
		legacy = append(legacy, r.legacy)
	}
	c.Abs(abs...)
	var der []byte
	var err error
	failedAt := -1 // recipient whose AddRecipient returned an error
	lb := c16LibBuf(content)
	x.withRand(rch, func() {
		var ed *pkcs7.EnvelopedData
		switch {
		case skind == 0 && sm:
			ed, err = pkcs7.NewSM2EnvelopedData(c16Ciphers[ci].c, lb)
		case skind == 0:
			ed, err = pkcs7.NewEnvelopedData(c16Ciphers[ci].c, lb)
		case skind == 1 && sm:
			ed, err = pkcs7.NewSM2EnvelopedDataWithSession(c16Ciphers[ci].c, lb, pkcs7.DefaultSession{})
		case skind == 1:
			ed, err = pkcs7.NewEnvelopedDataWithSession(c16Ciphers[ci].c, lb, pkcs7.DefaultSession{})
		case sm:
			ed, err = pkcs7.NewSM2EnvelopedDataWithSession(c16Ciphers[ci].c, lb, sess)
		default:
			ed, err = pkcs7.NewEnvelopedDataWithSession(c16Ciphers[ci].c, lb, sess)
		}
		if err != nil {
			return
		}
		for i, r := range rs {
			r := r
			wrap := func(cert *smx509.Certificate, key []byte) ([]byte, error) {
				var opts any
				if r.legacy {
					opts = true
				}
				switch {
				case sess != nil:
					return sess.EncryptdDataKey(key, cert, opts)
				case skind == 1:
					return pkcs7.DefaultSession{}.EncryptdDataKey(key, cert, opts)
				}
				return c16DirectWrap(cert, key, r.legacy)
			}
			if err = ed.AddRecipient(w.parties[r.party].cert, r.version, wrap); err != nil {
				failedAt = i
				return
			}
		}
		der, err = ed.Finish()
	})
	c.OutErr("envs.err", err)
	x.spareCheck(lb, content)
	if c.Failed() {
		return
	}
	if sess != nil {
		c.Hit("probe:session-envelope")
		if sess.genCalls != 1 || sess.genSize != c16Ciphers[ci].c.KeySize() {
			x.fail("session-misused", "New*EnvelopedDataWithSession asked the caller's session for %d data key(s), last size %d; the cipher %s needs one key of %d bytes", sess.genCalls, sess.genSize, c16Ciphers[ci].name, c16Ciphers[ci].c.KeySize())
			return
		}
		if !sess.encKeyOK {
			x.fail("session-misused", "AddRecipient handed the key-wrap function a key that is not the data key the session generated")
			return
		}
		if sess.failGen {
			if err == nil {
				x.fail("session-error-swallowed", "the session's GenerateDataKey failed but a message was produced")
			} else {
				c.Hit("fault:session-generate-error")
			}
			return
		}
		if sess.failEnc >= 0 && sess.failEnc < len(rs) {
			if err == nil || (supported && failedAt != sess.failEnc) {
				x.fail("session-error-swallowed", "the key wrap of recipient %d failed in the session, AddRecipient reported err=%v at recipient %d", sess.failEnc, err, failedAt)
			} else {
				c.Hit("fault:session-wrap-error")
			}
			return
		}
	}
	if err != nil {
		if supported {
			x.fail("create-failed", "step-wise enveloping for supported recipients failed (recipient %d): %v", failedAt, err)
		} else {
			c.Hit("probe:unsupported-recipient-refused")
		}
		return
	}
	if !supported {
		c.Hit("probe:unsupported-recipient-accepted")
		return // nothing is demanded of such a message
	}
	c.Out("envs.der", der)
	c.Hit("probe:stepwise-envelope")
	if mixed {
		c.Hit("probe:mixed-recipient-encodings")
	}
	if sess != nil && sess.masked {
		c.Hit("probe:masked-session-envelope")
	}
	// the harness' own reading: one recipient-info per AddRecipient, identified as the requested version says
	_, body := c16Body(der)
	views, ok := c16ReadRecipients(der, body)
	if !ok || len(views) != len(rs) {
		x.fail("malformed-output", "produced EnvelopedData cannot be read as DER with %d recipient-infos (got %d, ok=%v)", len(rs), len(views), ok)
		return
	}
	for _, r := range rs {
		pc := w.parties[r.party].cert
		found := false
		for _, v := range views {
			if v.version != r.version {
				continue
			}
			if r.version == 2 {
				found = found || (len(v.ski) > 0 && bytes.Equal(v.ski, pc.SubjectKeyId))
			} else {
				found = found || (bytes.Equal(v.issuer, pc.RawIssuer) && new(big.Int).SetBytes(v.serial).Cmp(pc.SerialNumber) == 0)
			}
		}
		if !found {
			x.fail("malformed-output", "no version-%d recipient-info identifies recipient %s", r.version, w.parties[r.party].name)
			return
		}
		for _, v := range views {
			// recorded, not judged (the library's own Decrypt does not read the field): the key-encryption identifier
			// follows the signature algorithm of the recipient's CERTIFICATE, not the recipient's key
			sm2Alg := bytes.Equal(v.keyAlg, c16OIDContent(pkcs7.OIDKeyEncryptionAlgorithmSM2))
			mine := (r.version == 2 && bytes.Equal(v.ski, pc.SubjectKeyId)) || (r.version != 2 && bytes.Equal(v.issuer, pc.RawIssuer) && new(big.Int).SetBytes(v.serial).Cmp(pc.SerialNumber) == 0)
			if mine && v.version == r.version && sm2Alg != (w.parties[r.party].kind == c16SM2) {
				c.Hit("probe:key-encryption-alg-does-not-fit-recipient-key")
			}
		}
	}
	flav := 0
	if sm {
		flav = 1
	}
	m := &c16Msg{kind: c16KEnv, der: der, content: content, cipher: ci, flavour: flav, recips: recips, legacy: legacy, sess: sess}
	x.msgs = append(x.msgs, m)
	x.ivProbe(der, rch)
	x.berIdentity(der)
	if c.Failed() {
		return
	}
	// every recipient added step-wise opens the untouched message; one outsider does not
	honest := &c16Dlv{data: der, name: "none"}
	for i := range recips {
		via := i % 3
		if sess != nil {
			via = 1
		}
		x.judgeEnv(m, honest, -1-i, 0, 0, via)
		if c.Failed() {
			return
		}
	}
	out := c16Mod(o.Int(6+3*n), c16NParties)
	for tries := 0; tries < c16NParties; tries++ {
		clash := false
		for _, r := range recips {
			if w.parties[r].keyID == w.parties[out].keyID || c16SameIAS(w.parties[r].cert, w.parties[out].cert) {
				clash = true
			}
		}
		if !clash && w.parties[out].kind != c16EC && !w.parties[out].slow {
			via := 0
			if sess != nil {
				via = 1
			}
			// with his own certificate (no recipient-info) and with a recipient's certificate (foreign key)
			x.judgeEnv(m, honest, out, 0, tries&1, via)
			c.Hit("probe:stepwise-outsider-tried")
			break
		}
		out = (out + 1) % c16NParties
	}
}

// ---- post-signing manipulation ----

// c16EncOID picks a digestEncryptionAlgorithm identifier that fits the signer's key and digest.
func c16EncOID(pt *c16Party, alg, sel int) asn1.ObjectIdentifier {
	switch pt.kind {
	case c16RSA:
		if sel == 1 {
			return pkcs7.OIDEncryptionAlgorithmRSA
		}
		return []asn1.ObjectIdentifier{pkcs7.OIDEncryptionAlgorithmRSASHA1, pkcs7.OIDEncryptionAlgorithmRSASHA256, pkcs7.OIDEncryptionAlgorithmRSASHA384, pkcs7.OIDEncryptionAlgorithmRSASHA512}[c16Mod(alg, 4)]
	case c16EC:
		if sel == 1 {
			if pub, ok := pt.cert.PublicKey.(*ecdsa.PublicKey); ok && pub.Curve.Params().BitSize == 384 {
				return pkcs7.OIDEncryptionAlgorithmECDSAP384
			}
			return pkcs7.OIDEncryptionAlgorithmECDSAP256
		}
		return []asn1.ObjectIdentifier{pkcs7.OIDDigestAlgorithmECDSASHA1, pkcs7.OIDDigestAlgorithmECDSASHA256, pkcs7.OIDDigestAlgorithmECDSASHA384, pkcs7.OIDDigestAlgorithmECDSASHA512}[c16Mod(alg, 4)]
	}
	return pkcs7.OIDDigestEncryptionAlgorithmSM2
}

// c16Snap is the builder's state before RemoveAuthenticatedAttributes / RemoveUnauthenticatedAttributes.
type c16Snap struct {
	sig      []byte
	attrs    []byte // canonical (sorted) attribute encodings
	attrsSet []byte // SET OF encoding in builder order: the bytes that were signed
	nUnauth  int
}

func c16SnapSigners(sd *pkcs7.SignedData) []c16Snap {
	var out []c16Snap
	for _, si := range sd.GetSignedData().SignerInfos {
		s := c16Snap{sig: append([]byte{}, si.EncryptedDigest...), nUnauth: len(si.UnauthenticatedAttributes)}
		var elems [][]byte
		var cat []byte
		for _, a := range si.AuthenticatedAttributes {
			enc, err := asn1.Marshal(struct {
				T asn1.ObjectIdentifier
				V asn1.RawValue
			}{a.Type, a.Value})
			if err != nil {
				continue
			}
			elems = append(elems, enc)
			cat = append(cat, enc...)
		}
		if len(elems) > 0 {
			s.attrs = c16Canon(elems)
			s.attrsSet = append(append([]byte{0x31}, c16Len(len(cat))...), cat...)
		}
		out = append(out, s)
	}
	return out
}

var c16OIDUnsignedExtra = []byte{0x2a, 0x03, 0x04, 0x05, 0x07} // 1.2.3.4.5.7

// ---- DegenerateCertificate ----

func (x *c16X) doDegen(o sim.Op) {
	c, w := x.c, x.w
	mask := o.Int(0)
	var list []*smx509.Certificate
	all := append(x.certsOf([]int{0, 1, 2, 3, 4, 5, 6, 7, 8, 9}), w.inter, w.root, w.extra)
	for i, ct := range all {
		if mask>>uint(i)&1 == 1 {
			list = append(list, ct)
		}
	}
	c.Abs("degen", len(list))
	var cat []byte
	for _, ct := range list {
		cat = append(cat, ct.Raw...)
	}
	der, err := pkcs7.DegenerateCertificate(cat)
	c.OutErr("degen.err", err)
	x.judged++
	if err != nil {
		x.fail("create-failed", "DegenerateCertificate of %d certificates failed: %v", len(list), err)
		return
	}
	c.Out("degen.der", der)
	c.Hit("probe:degenerate")
	x.berIdentity(der)
	if c.Failed() {
		return
	}
	check := func(what string, data []byte) bool {
		p7, err := pkcs7.Parse(data)
		if err != nil {
			x.fail("honest-rejected", "Parse of a degenerate SignedData (%s, %d certificates) failed: %v", what, len(list), err)
			return false
		}
		if len(p7.Certificates) != len(list) {
			x.fail("degenerate-mismatch", "degenerate SignedData (%s) carries %d certificates, %d were given", what, len(p7.Certificates), len(list))
			return false
		}
		for i := range list {
			if !bytes.Equal(p7.Certificates[i].Raw, list[i].Raw) {
				x.fail("degenerate-mismatch", "degenerate SignedData (%s): certificate %d differs from the one given", what, i)
				return false
			}
		}
		if len(p7.Signers) != 0 || len(p7.Content) != 0 {
			x.fail("degenerate-mismatch", "degenerate SignedData (%s) parsed with %d signer-infos and %d content bytes", what, len(p7.Signers), len(p7.Content))
			return false
		}
		if p7.GetOnlySigner() != nil {
			x.fail("only-signer-wrong", "GetOnlySigner of a message without signer-infos returned a certificate")
			return false
		}
		// a message without a signer vouches for nothing
		now := time.Now().UTC()
		for i, e := range []error{p7.Verify(), p7.VerifyWithChain(w.pool), p7.VerifyWithChainAtTime(w.pool, &now), p7.VerifyAsDigest(), cfca.VerifyMessageAttach(data)} {
			if e == nil {
				x.fail("altered-message-verifies", "degenerate SignedData (%s) without any signer-info verifies (verifier %d)", what, i)
				return false
			}
		}
		return true
	}
	if !check("der", der) {
		return
	}
	if ber := c16Indef(der, 1+c16Mod(o.Int(1), 3)); ber != nil {
		if !check("ber", ber) {
			return
		}
	}
	// one altered copy: whatever it parses to, it never verifies as anything a signer of the run produced
	if len(der) > 0 {
		data := append([]byte{}, der...)
		mk := byte(o.Int(3))
		if mk == 0 {
			mk = 1
		}
		data[c16Mod(o.Int(2), len(data))] ^= mk
		c.Hit("fault:byte")
		if p7, err := pkcs7.Parse(data); err == nil && p7.Verify() == nil {
			x.acceptCheck(p7, p7.Content, false, false, false)
		}
	}
}

var c16AtTimes = []int64{c16NB - 1, c16NB, c16NB + 1, c16NA - 1, c16NA, c16NA + 1, c16Y2050, c16NB + (c16NA-c16NB)/2, c16NB - 86400*365, c16NA + 86400*365}

var c16OIDSignedExtra = asn1.ObjectIdentifier{1, 2, 3, 4, 5, 6}

// honestViews: the accessors of an unaltered parsed SignedData agree with the ledger.
func (x *c16X) honestViews(m *c16Msg, p7 *pkcs7.PKCS7) bool {
	w := x.w
	only := p7.GetOnlySigner()
	switch {
	case len(m.recs) != 1:
		if only != nil {
			x.fail("only-signer-wrong", "GetOnlySigner returned a certificate for a message with %d signers", len(m.recs))
			return false
		}
	case m.hasCerts:
		want := w.parties[m.recs[0].party].cert
		if only == nil || !bytes.Equal(only.Raw, want.Raw) {
			x.fail("only-signer-wrong", "GetOnlySigner of an unaltered message signed by %s alone returned %v", w.parties[m.recs[0].party].name, only != nil)
			return false
		}
		x.c.Hit("probe:only-signer")
	}
	if m.noattr || m.stripped || len(p7.Signers) == 0 {
		return true
	}
	var first *c16Rec
	for _, rec := range m.recs {
		if bytes.Equal(rec.sig, p7.Signers[0].EncryptedDigest) {
			first = rec
		}
	}
	if first == nil {
		return true
	}
	var md []byte
	if err := p7.UnmarshalSignedAttribute(pkcs7.OIDAttributeMessageDigest, &md); err != nil || !bytes.Equal(md, first.D) {
		x.fail("signed-attribute-wrong", "UnmarshalSignedAttribute(messageDigest) of an unaltered message: err=%v, %x, digest of the signed content %x", err, md, first.D)
		return false
	}
	x.c.Hit("probe:unmarshal-signed-attribute")
	if m.sigExtra {
		var s string
		want := "verif signed " + w.parties[first.party].name
		if err := p7.UnmarshalSignedAttribute(c16OIDSignedExtra, &s); err != nil || s != want {
			x.fail("signed-attribute-wrong", "UnmarshalSignedAttribute(extra signed attribute) of an unaltered message: err=%v, %q, configured %q", err, s, want)
			return false
		}
	}
	return true
}

// honestRecipients: GetRecipients of an unaltered message names exactly the recipients that were added.
func (x *c16X) honestRecipients(m *c16Msg, p7 *pkcs7.PKCS7) bool {
	ris, err := p7.GetRecipients()
	if err != nil || len(ris) != len(m.recips) {
		x.fail("recipients-mismatch", "GetRecipients of an unaltered message: err=%v, %d entries, %d recipients were added", err, len(ris), len(m.recips))
		return false
	}
	for _, r := range m.recips {
		pc := x.w.parties[r].cert
		found := false
		for _, ri := range ris {
			if ri.SerialNumber != nil && ri.SerialNumber.Cmp(pc.SerialNumber) == 0 && bytes.Equal(ri.RawIssuer, pc.RawIssuer) {
				found = true
			}
			if len(ri.SubjectKeyIdentifier) > 0 && bytes.Equal(ri.SubjectKeyIdentifier, pc.SubjectKeyId) {
				found = true
			}
		}
		if !found {
			x.fail("recipients-mismatch", "GetRecipients of an unaltered message does not name recipient %s", x.w.parties[r].name)
			return false
		}
	}
	x.c.Hit("probe:get-recipients")
	return true
}
