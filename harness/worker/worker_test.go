// Package worker is the node process of the simulator: a `go test -c` binary
// (testing.T is needed for testing/synctest and cryptotest.SetGlobalRandom)
// driven entirely by environment variables set by /verif/bin/verif.
package worker

import (
	"encoding/binary"
	"encoding/json"
	"fmt"
	"os"
	"os/exec"
	"runtime/debug"
	"strconv"
	"strings"
	"sync/atomic"
	"testing"
	"testing/cryptotest"
	"time"

	"verif/harness/props"
	"verif/harness/sim"
)

type violationRec struct {
	Idx     uint64         `json:"idx"`
	Seed    uint64         `json:"seed"`
	V       *sim.Violation `json:"v"`
	Program *sim.Program   `json:"program"`
}

type sampleRec struct {
	Idx     uint64       `json:"idx"`
	Program *sim.Program `json:"program"`
}

type jobSummary struct {
	Prop       string           `json:"prop"`
	Node       string           `json:"node"`
	From, To   uint64           // requested
	Done       uint64           `json:"done"` // runs completed (may stop early at the deadline)
	Ops        int64            `json:"ops"`
	SimNS      int64            `json:"simns"`
	Counters   map[string]int64 `json:"counters"`
	Violations []violationRec   `json:"violations"`
	Samples    []sampleRec      `json:"samples"`
}

func envU(name string, def uint64) uint64 {
	s := os.Getenv(name)
	if s == "" {
		return def
	}
	v, err := strconv.ParseUint(s, 10, 64)
	if err != nil {
		fmt.Fprintf(os.Stderr, "worker: bad %s=%q\n", name, s)
		os.Exit(2)
	}
	return v
}

func knownSet() map[string]bool {
	m := map[string]bool{}
	for _, k := range strings.Split(os.Getenv("VERIF_KNOWN"), ",") {
		if k != "" {
			m[k] = true
		}
	}
	return m
}

// runOne executes a program with panic recovery. Properties that use Go's
// global cryptographic randomness (crypto/rand.Reader, RSA/ECDSA of the
// standard library) run inside a subtest whose global random source is
// seeded from the program (testing/cryptotest.SetGlobalRandom), so that the
// execution is a pure function of the program.
func runOne(t *testing.T, pr *props.Prop, p *sim.Program, logOn bool) (res *sim.Result) {
	runStarted.Store(time.Now().UnixNano())
	defer runStarted.Store(0)
	c := sim.NewCtx(knownSet(), os.Getenv("VERIF_NODE"), logOn)
	body := func(t *testing.T) {
		defer func() {
			if r := recover(); r != nil {
				st := string(debug.Stack())
				if len(st) > 1500 {
					st = st[:1500]
				}
				kind := "?"
				if c.OpsDone-1 >= 0 && c.OpsDone-1 < len(p.Ops) {
					kind = p.Ops[c.OpsDone-1].K
				}
				c.V = nil
				c.Fail("panic", c.OpsDone-1, kind, "panic: %v\n%s", r, st)
			}
		}()
		pr.Exec(t, p, c)
	}
	if pr.GlobalRand {
		t.Run("r", func(t *testing.T) {
			cryptotest.SetGlobalRandom(t, uint64(p.C("grand"))+1)
			body(t)
		})
	} else {
		body(t)
	}
	return c.Result()
}

// runStarted is the wall-clock start of the run being executed (0 = none).
// The per-run watchdog is the only place where the worker reads a real clock
// for a decision: a single run that does not return within the limit ends the
// process with exit status 7 and the marker line below; the driver then
// re-executes that run alone, twice, before it calls it a hang. Runs take
// milliseconds, the limit is tens of seconds.
var runStarted atomic.Int64

const watchdogMarker = "VERIF-RUN-WATCHDOG"

func startRunWatchdog(limit time.Duration) {
	go func() {
		for {
			time.Sleep(200 * time.Millisecond)
			if s := runStarted.Load(); s != 0 && time.Now().UnixNano()-s > int64(limit) {
				fmt.Fprintf(os.Stderr, "%s: one run did not return within %v\n", watchdogMarker, limit)
				os.Exit(7)
			}
		}
	}()
}

func TestWorker(t *testing.T) {
	mode := os.Getenv("VERIF_MODE")
	if mode == "" {
		t.Skip("not driven by the verif driver")
	}
	tests := props.SelfTestsOf[os.Getenv("VERIF_PROP")]
	if mode == "selftest" {
		tests = props.SelfTests
	}
	if mode == "describe" || mode == "gen" {
		tests = nil
	}
	for _, st := range tests {
		if err := st(); err != nil {
			fmt.Fprintf(os.Stderr, "worker: model self-test failed: %v\n", err)
			os.Exit(2)
		}
	}
	if mode == "selftest" {
		fmt.Println("SELFTEST-OK")
		return
	}
	pr := props.Registry[os.Getenv("VERIF_PROP")]
	if pr == nil {
		fmt.Fprintf(os.Stderr, "worker: unknown property %q\n", os.Getenv("VERIF_PROP"))
		os.Exit(2)
	}
	if pr.Init != nil && mode != "describe" {
		if err := pr.Init(); err != nil {
			fmt.Fprintf(os.Stderr, "worker: init: %v\n", err)
			os.Exit(2)
		}
	}
	if mode == "explore" || mode == "replay" {
		startRunWatchdog(time.Duration(envU("VERIF_RUNLIMIT", uint64(pr.RunLimit()))) * time.Second)
	}
	switch mode {
	case "describe":
		type desc struct {
			ID, Level, Rule           string
			NodesQuick, NodesThorough []string
			Cross                     bool
			Real, Stubs, Assume       []string
			QuickSecs, ThoroughSecs   int
			RunsPerJob                int
			HangSecs                  int
			RunLimitSecs              int
			WarmKnob                  bool
		}
		d := desc{RunLimitSecs: pr.RunLimit(), WarmKnob: pr.WarmKnob, ID: pr.ID, Level: pr.Level, Rule: pr.Rule, NodesQuick: pr.Nodes("quick"), NodesThorough: pr.Nodes("thorough"), Cross: pr.Cross,
			Real: pr.Real, Stubs: pr.Stubs, Assume: pr.Assume, QuickSecs: pr.QuickSecs, ThoroughSecs: pr.ThoroughSecs, RunsPerJob: pr.RunsPerJob, HangSecs: pr.HangSecs}
		b, _ := json.Marshal(&d)
		os.WriteFile(os.Getenv("VERIF_OUT"), b, 0o644)
	case "explore":
		explore(t, pr)
	case "replay":
		replay(t, pr)
	case "shrink":
		shrink(t, pr)
	case "gen":
		// print the program of one run index (debugging aid)
		idx := envU("VERIF_FROM", 0)
		seed := sim.RunSeed(envU("VERIF_SEED", 1), pr.ID, idx)
		p := pr.Gen(sim.NewRand(seed), os.Getenv("VERIF_TIER"))
		os.Stdout.Write(p.JSON())
		fmt.Println()
	default:
		fmt.Fprintf(os.Stderr, "worker: unknown mode %q\n", mode)
		os.Exit(2)
	}
}

func explore(t *testing.T, pr *props.Prop) {
	vseed := envU("VERIF_SEED", 1)
	from, to := envU("VERIF_FROM", 0), envU("VERIF_TO", 0)
	deadline := int64(envU("VERIF_DEADLINE", 0))
	nsamples := int(envU("VERIF_SAMPLES", 0))
	tier := os.Getenv("VERIF_TIER")
	out := os.Getenv("VERIF_OUT")
	wal := os.Getenv("VERIF_WAL")
	binf, err := os.Create(out + ".bin")
	if err != nil {
		fmt.Fprintln(os.Stderr, "worker:", err)
		os.Exit(2)
	}
	var walf *os.File
	if wal != "" {
		walf, err = os.OpenFile(wal, os.O_CREATE|os.O_RDWR|os.O_TRUNC, 0o644)
		if err != nil {
			fmt.Fprintln(os.Stderr, "worker:", err)
			os.Exit(2)
		}
	}
	sum := jobSummary{Prop: pr.ID, Node: os.Getenv("VERIF_NODE"), From: from, To: to, Counters: map[string]int64{}}
	buf := make([]byte, 0, 1<<16)
	flush := func() {
		if len(buf) > 0 {
			binf.Write(buf)
			buf = buf[:0]
		}
	}
	writeSummary := func() {
		flush()
		b, _ := json.Marshal(&sum)
		os.WriteFile(out+".json.tmp", b, 0o644)
		os.Rename(out+".json.tmp", out+".json")
	}
	for idx := from; idx < to; idx++ {
		if deadline != 0 && (idx-from)%16 == 0 && time.Now().UnixNano() > deadline {
			break
		}
		seed := sim.RunSeed(vseed, pr.ID, idx)
		p := pr.Gen(sim.NewRand(seed), tier)
		if walf != nil {
			// write-ahead: the program about to run, so that a killed worker can be attributed
			// (index and seed only: the driver regenerates the program with mode "gen")
			var rec [24]byte
			binary.LittleEndian.PutUint64(rec[0:], 0x5645524946574131)
			binary.LittleEndian.PutUint64(rec[8:], idx)
			binary.LittleEndian.PutUint64(rec[16:], seed)
			walf.WriteAt(rec[:], 0)
		}
		res := runOne(t, pr, p, false)
		var rec [17]byte
		binary.LittleEndian.PutUint64(rec[0:], res.Trace)
		binary.LittleEndian.PutUint64(rec[8:], res.Abstract)
		if res.Nontriv {
			rec[16] = 1
		}
		buf = append(buf, rec[:]...)
		if len(buf) >= 1<<15 {
			flush()
		}
		sum.Done++
		sum.Ops += int64(res.Ops)
		sum.SimNS += res.SimNS
		for _, k := range sim.SortedKeys(res.Counters) {
			sum.Counters[k] += res.Counters[k]
		}
		if res.V != nil {
			sum.Violations = append(sum.Violations, violationRec{Idx: idx, Seed: seed, V: res.V, Program: p})
			if len(sum.Violations) >= 20 {
				break // enough to report; do not flood
			}
		} else if len(sum.Samples) < nsamples && res.Nontriv {
			sum.Samples = append(sum.Samples, sampleRec{Idx: idx, Program: p})
		}
	}
	if walf != nil {
		walf.Close()
		os.Remove(wal)
	}
	writeSummary()
	binf.Close()
}

type replayOut struct {
	V      *sim.Violation `json:"v"`
	Result *sim.Result    `json:"result"`
}

func loadProgram() *sim.Program {
	b, err := os.ReadFile(os.Getenv("VERIF_PROGRAM"))
	if err != nil {
		fmt.Fprintln(os.Stderr, "worker:", err)
		os.Exit(2)
	}
	// accept either a bare program or a replay file with a "program" member
	var wrap struct {
		Program *sim.Program `json:"program"`
	}
	if json.Unmarshal(b, &wrap) == nil && wrap.Program != nil {
		return wrap.Program
	}
	p, err := sim.ParseProgram(b)
	if err != nil {
		fmt.Fprintln(os.Stderr, "worker:", err)
		os.Exit(2)
	}
	return p
}

func replay(t *testing.T, pr *props.Prop) {
	p := loadProgram()
	res := runOne(t, pr, p, os.Getenv("VERIF_LOG") == "1")
	b, _ := json.Marshal(&replayOut{V: res.V, Result: res})
	if err := os.WriteFile(os.Getenv("VERIF_OUT"), b, 0o644); err != nil {
		fmt.Fprintln(os.Stderr, "worker:", err)
		os.Exit(2)
	}
}

// shrink minimises VERIF_PROGRAM. If VERIF_SUBPROC=1 every candidate is
// executed in a child process (needed when the failure kills the process).
func shrink(t *testing.T, pr *props.Prop) {
	p := loadProgram()
	var want sim.Violation
	if err := json.Unmarshal([]byte(os.Getenv("VERIF_WANT")), &want); err != nil {
		fmt.Fprintln(os.Stderr, "worker: VERIF_WANT:", err)
		os.Exit(2)
	}
	budget := int(envU("VERIF_BUDGET", 400))
	sub := os.Getenv("VERIF_SUBPROC") == "1"
	tmp := os.Getenv("VERIF_OUT") + ".cand"
	execFn := func(c *sim.Program) *sim.Violation {
		if !sub {
			return runOne(t, pr, c, false).V
		}
		os.WriteFile(tmp, c.JSON(), 0o644)
		os.Remove(tmp + ".out")
		cmd := exec.Command(os.Args[0], "-test.run", "^TestWorker$")
		cmd.Env = append(os.Environ(), "VERIF_MODE=replay", "VERIF_PROGRAM="+tmp, "VERIF_OUT="+tmp+".out")
		cout, err := cmd.CombinedOutput()
		b, rerr := os.ReadFile(tmp + ".out")
		if rerr != nil || err != nil {
			// child died: crash class (or a race report, which ends the process)
			cls := "crash"
			if strings.Contains(string(cout), "DATA RACE") {
				cls = "data-race"
			}
			return &sim.Violation{Class: cls, Op: -1, OpKind: want.OpKind, Detail: want.Detail}
		}
		var ro replayOut
		json.Unmarshal(b, &ro)
		return ro.V
	}
	best, v, used := sim.Shrink(p, &want, execFn, budget)
	os.Remove(tmp)
	os.Remove(tmp + ".out")
	type shrinkOut struct {
		Program *sim.Program   `json:"program"`
		V       *sim.Violation `json:"v"`
		Used    int            `json:"used"`
	}
	b, _ := json.Marshal(&shrinkOut{best, v, used})
	os.WriteFile(os.Getenv("VERIF_OUT"), b, 0o644)
}
