package main

// A node is a worker process in one named configuration (DESIGN.md section 3).
type nodeCfg struct {
	Bin string   // asm | purego | race
	Env []string // extra environment
}

var nodes = map[string]nodeCfg{
	"avx2":         {Bin: "asm"},
	"avx":          {Bin: "asm", Env: []string{"GODEBUG=cpu.avx2=off"}},
	"sse":          {Bin: "asm", Env: []string{"GODEBUG=cpu.avx2=off,cpu.avx=off"}},
	"scalar":       {Bin: "asm", Env: []string{"GODEBUG=cpu.avx2=off,cpu.avx=off,cpu.ssse3=off"}},
	"noaes":        {Bin: "asm", Env: []string{"GODEBUG=cpu.aes=off"}},
	"noclmul":      {Bin: "asm", Env: []string{"GODEBUG=cpu.pclmulqdq=off"}},
	"noclmul-avx":  {Bin: "asm", Env: []string{"GODEBUG=cpu.pclmulqdq=off,cpu.avx2=off"}}, // table-driven GCM over the 4-block AVX batch
	"noclmul-sse":  {Bin: "asm", Env: []string{"GODEBUG=cpu.pclmulqdq=off,cpu.avx2=off,cpu.avx=off"}},
	"noadx":        {Bin: "asm", Env: []string{"GODEBUG=cpu.adx=off"}},
	"nobmi2":       {Bin: "asm", Env: []string{"GODEBUG=cpu.bmi2=off"}},
	"aesni1":       {Bin: "asm", Env: []string{"FORCE_SM4BLOCK_AESNI=1"}},
	"purego":       {Bin: "purego"},
	"race":         {Bin: "race"},
	"race-noclmul": {Bin: "race", Env: []string{"GODEBUG=cpu.pclmulqdq=off"}},
	"race-noaes":   {Bin: "race", Env: []string{"GODEBUG=cpu.aes=off"}},
	"race-purego":  {Bin: "racepurego"},
}

var binTags = map[string][]string{
	"asm":        {"-tags", "verif"},
	"purego":     {"-tags", "verif,purego"},
	"race":       {"-tags", "verif", "-race"},
	"racepurego": {"-tags", "verif,purego", "-race"}, // the detector does not instrument assembly: the generic code shows what assembly hides
}
