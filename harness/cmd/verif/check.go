package main

import (
	"bytes"
	"encoding/binary"
	"encoding/json"
	"fmt"
	"os"
	"os/exec"
	"path/filepath"
	"runtime"
	"sort"
	"strconv"
	"strings"
	"sync"
	"sync/atomic"
	"time"

	"verif/harness/sim"
)

// verifRoot is /verif unless check.sh runs from a snapshot of it (vp run), which sets VERIF_ROOT.
var verifRoot = func() string {
	if r := os.Getenv("VERIF_ROOT"); r != "" {
		return r
	}
	return "/verif"
}()
var harnessDir = filepath.Join(verifRoot, "harness")

const goBin = "go1.26.8"

type desc struct {
	ID, Level, Rule           string
	NodesQuick, NodesThorough []string
	Cross                     bool
	Real, Stubs, Assume       []string
	QuickSecs, ThoroughSecs   int
	RunsPerJob                int
	HangSecs                  int
	RunLimitSecs              int
	WarmKnob                  bool // programs have a Cfg knob "warm" (see props.Prop.WarmKnob)
}

type violationRec struct {
	Idx     uint64         `json:"idx"`
	Seed    uint64         `json:"seed"`
	V       *sim.Violation `json:"v"`
	Program *sim.Program   `json:"program"`
}

type sampleRec struct {
	Idx     uint64       `json:"idx"`
	Program *sim.Program `json:"program"`
}

type jobSummary struct {
	Prop       string `json:"prop"`
	Node       string `json:"node"`
	From, To   uint64
	Done       uint64           `json:"done"`
	Ops        int64            `json:"ops"`
	SimNS      int64            `json:"simns"`
	Counters   map[string]int64 `json:"counters"`
	Violations []violationRec   `json:"violations"`
	Samples    []sampleRec      `json:"samples"`
}

type finding struct {
	Property string `json:"property"`
	Key      string `json:"key"`
	Status   string `json:"status"` // open | fixed
	Replay   string `json:"replay"`
	What     string `json:"what"`
	Line     string `json:"line,omitempty"`
	Commit   string `json:"commit,omitempty"`
}

type replayFile struct {
	Property string         `json:"property"`
	Node     string         `json:"node"`
	Node2    string         `json:"node2,omitempty"` // cross-configuration divergence: second node
	Seed     uint64         `json:"verif_seed"`
	Idx      uint64         `json:"run_index"`
	Expect   *sim.Violation `json:"expect"`
	Program  *sim.Program   `json:"program"`
	Note     string         `json:"note,omitempty"`
}

type builder struct {
	dir  string
	bins map[string]string
	mu   sync.Mutex
}

func goEnv() []string {
	env := os.Environ()
	env = append(env, "GOFLAGS=-mod=mod", "GOPROXY=off", "GOSUMDB=off", "GOTOOLCHAIN=local", "CGO_ENABLED=1")
	return env
}

// build compiles the worker test binary of the given kind from /repo's current working tree.
func (b *builder) build(kind string) (string, error) {
	b.mu.Lock()
	defer b.mu.Unlock()
	if p, ok := b.bins[kind]; ok {
		return p, nil
	}
	out := filepath.Join(b.dir, "worker-"+kind+".test")
	args := append([]string{"test", "-c", "-vet=off"}, binTags[kind]...)
	if repo := os.Getenv("VERIF_REPO"); repo != "" && repo != "/repo" {
		// background runs against a snapshot of the repository (vp run --with-repo): same harness sources, other replace target
		mf := filepath.Join(b.dir, "go.alt.mod")
		if _, err := os.Stat(mf); err != nil {
			src, err := os.ReadFile(filepath.Join(harnessDir, "go.mod"))
			if err != nil {
				return "", err
			}
			alt := strings.Replace(string(src), "=> /repo", "=> "+repo, 1)
			if err := os.WriteFile(mf, []byte(alt), 0o644); err != nil {
				return "", err
			}
			if sum, err := os.ReadFile(filepath.Join(harnessDir, "go.sum")); err == nil {
				os.WriteFile(filepath.Join(b.dir, "go.alt.sum"), sum, 0o644)
			}
		}
		args = append(args, "-modfile="+mf)
	}
	args = append(args, "-o", out, "./worker")
	cmd := exec.Command(goBin, args...)
	cmd.Dir = harnessDir
	cmd.Env = goEnv()
	if msg, err := cmd.CombinedOutput(); err != nil {
		return "", fmt.Errorf("build %s: %v\n%s", kind, err, msg)
	}
	b.bins[kind] = out
	return out, nil
}

type workerCall struct {
	node string
	env  []string
	gmp  int // GOMAXPROCS, 0 = default 1
}

// runWorker runs the worker binary of node with the given env; returns exit error (nil = ok) and combined output.
func (b *builder) runWorker(node string, env []string, gomaxprocs int, timeout time.Duration) (string, error) {
	nc, ok := nodes[node]
	if !ok {
		return "", fmt.Errorf("unknown node %q", node)
	}
	bin, err := b.build(nc.Bin)
	if err != nil {
		return "", err
	}
	cmd := exec.Command(bin, "-test.run", "^TestWorker$", "-test.timeout", "0")
	if gomaxprocs <= 0 {
		gomaxprocs = 1
	}
	e := append(os.Environ(), nc.Env...)
	e = append(e, "GOMAXPROCS="+strconv.Itoa(gomaxprocs), "VERIF_NODE="+node, "GORACE=halt_on_error=1 history_size=7" /* the detector silently drops a report when the earlier access has left its per-goroutine history; a pairing between two accesses is enough for that at the default size */)
	e = append(e, env...)
	cmd.Env = e
	var outb bytes.Buffer
	cmd.Stdout = &outb
	cmd.Stderr = &outb
	if err := cmd.Start(); err != nil {
		return "", err
	}
	done := make(chan error, 1)
	go func() { done <- cmd.Wait() }()
	select {
	case err := <-done:
		return outb.String(), err
	case <-time.After(timeout):
		cmd.Process.Kill()
		<-done
		return outb.String(), fmt.Errorf("watchdog: worker exceeded %v", timeout)
	}
}

func loadFindings() []finding {
	b, err := os.ReadFile(filepath.Join(verifRoot, "known_findings.json"))
	if err != nil {
		return nil
	}
	var f struct {
		Findings []finding `json:"findings"`
	}
	if err := json.Unmarshal(b, &f); err != nil {
		fmt.Fprintln(os.Stderr, "verif: known_findings.json:", err)
		os.Exit(2)
	}
	return f.Findings
}

const watchdogMarker = "VERIF-RUN-WATCHDOG"

var replaySeq atomic.Int64

func markerLine(out string) string {
	for _, l := range strings.Split(out, "\n") {
		if i := strings.Index(l, watchdogMarker); i >= 0 {
			return strings.TrimSpace(l[i+len(watchdogMarker)+1:])
		}
	}
	return "one run did not return"
}

type checker struct {
	runLimit      int // > 0: VERIF_RUNLIMIT (seconds) handed to replay workers (minimisation of hangs)
	replayTimeout time.Duration
	prop          string
	tier          string
	seed          uint64
	b             *builder
	d             desc
	known         string // comma separated open keys
	tmp           string
	infraErr      []string
}

func (c *checker) infra(format string, a ...any) {
	c.infraErr = append(c.infraErr, fmt.Sprintf(format, a...))
	fmt.Fprintf(os.Stderr, "verif: INFRA: "+format+"\n", a...)
}

type replayOut struct {
	V      *sim.Violation `json:"v"`
	Result *sim.Result    `json:"result"`
}

// replayProgram executes p on node in a fresh process. died=true if the process was killed/crashed.
func (c *checker) replayProgram(node string, p *sim.Program, log bool) (ro *replayOut, died bool, output string, err error) {
	f := filepath.Join(c.tmp, fmt.Sprintf("replay-%d-%d.json", time.Now().UnixNano(), replaySeq.Add(1)))
	os.WriteFile(f, p.JSON(), 0o644)
	defer os.Remove(f)
	defer os.Remove(f + ".out")
	env := []string{"VERIF_MODE=replay", "VERIF_PROP=" + c.prop, "VERIF_PROGRAM=" + f, "VERIF_OUT=" + f + ".out", "VERIF_KNOWN=" + c.known, "VERIF_TIER=" + c.tier}
	if log {
		env = append(env, "VERIF_LOG=1")
	}
	if c.runLimit > 0 {
		env = append(env, "VERIF_RUNLIMIT="+strconv.Itoa(c.runLimit))
	}
	gmp := 1
	if p.Cfg != nil && p.Cfg["gomaxprocs"] > 0 {
		gmp = int(p.Cfg["gomaxprocs"])
	}
	rt := 10 * time.Minute
	if c.replayTimeout > 0 {
		rt = c.replayTimeout
	}
	out, werr := c.b.runWorker(node, env, gmp, rt)
	b, rerr := os.ReadFile(f + ".out")
	if rerr != nil {
		if werr != nil && strings.Contains(out, watchdogMarker) {
			return nil, false, out, fmt.Errorf("watchdog: %s", markerLine(out))
		}
		if werr != nil && strings.Contains(werr.Error(), "watchdog") {
			return nil, false, out, werr
		}
		if werr != nil {
			return nil, true, out, nil
		}
		return nil, false, out, fmt.Errorf("worker wrote no result: %s", out)
	}
	ro = &replayOut{}
	if err := json.Unmarshal(b, ro); err != nil {
		return nil, false, out, err
	}
	if werr != nil {
		// result written but process failed afterwards (e.g. race detector report at exit)
		return ro, true, out, nil
	}
	return ro, false, out, nil
}

func crashDetail(out string) string {
	lines := strings.Split(out, "\n")
	var keep []string
	if i := strings.Index(out, "WARNING: DATA RACE"); i >= 0 {
		// the two conflicting accesses with their top frames
		for _, l := range strings.Split(out[i:], "\n") {
			l = strings.TrimSpace(l)
			if l == "" || strings.HasPrefix(l, "====") {
				continue
			}
			if strings.HasPrefix(l, "Goroutine ") {
				break
			}
			if strings.Contains(l, "/verif/harness/") || strings.Contains(l, "testing.") || strings.Contains(l, "runtime.") {
				continue
			}
			keep = append(keep, l)
			if len(keep) >= 16 {
				break
			}
		}
		return strings.Join(keep, " | ")
	}
	for _, l := range lines {
		if strings.Contains(l, "fatal") || strings.Contains(l, "SIG") || strings.Contains(l, "panic") || strings.Contains(l, "unexpected fault") {
			keep = append(keep, strings.TrimSpace(l))
		}
		if len(keep) >= 6 {
			break
		}
	}
	if len(keep) == 0 && len(lines) > 0 {
		n := len(lines)
		if n > 6 {
			n = 6
		}
		keep = lines[:n]
	}
	return strings.Join(keep, " | ")
}

// confirm re-executes a candidate in a fresh process; returns the violation observed there (nil if none).
func (c *checker) confirm(node string, p *sim.Program) (*sim.Violation, error) {
	if c.d.HangSecs > 0 {
		c.replayTimeout = time.Duration(c.d.HangSecs) * time.Second
		defer func() { c.replayTimeout = 0 }()
	}
	ro, died, out, err := c.replayProgram(node, p, false)
	if err != nil && strings.Contains(err.Error(), "watchdog") {
		// the run alone exceeds the per-run budget: execute it a second time before it is called a hang
		if _, _, _, err2 := c.replayProgram(node, p, false); err2 != nil && strings.Contains(err2.Error(), "watchdog") {
			return &sim.Violation{Class: "hang", Op: -1, Detail: "in two separate executions of its own " + strings.TrimPrefix(err2.Error(), "watchdog: ") + " (a library call does not return)"}, nil
		}
		return nil, fmt.Errorf("a run exceeded its time budget once but not twice")
	}
	if err != nil {
		return nil, err
	}
	if died {
		kind := ""
		cls := "crash"
		if strings.Contains(out, "DATA RACE") {
			cls = "data-race"
		}
		return &sim.Violation{Class: cls, Op: -1, OpKind: kind, Detail: crashDetail(out)}, nil
	}
	return ro.V, nil
}

// shrinkHang minimises a program that does not return. Candidates get a short per-run budget (runs take
// milliseconds; a candidate that merely became slow is weeded out afterwards, because the caller re-confirms the
// result with the full budget in two separate executions and falls back to the original otherwise).
func (c *checker) shrinkHang(node string, p *sim.Program, want *sim.Violation) (*sim.Program, *sim.Violation) {
	c.runLimit = 4
	defer func() { c.runLimit = 0 }()
	best, bv, _ := sim.Shrink(p, want, func(q *sim.Program) *sim.Violation {
		_, _, _, err := c.replayProgram(node, q, false)
		if err != nil && strings.Contains(err.Error(), "watchdog") {
			return &sim.Violation{Class: "hang", Op: want.Op, OpKind: want.OpKind, Detail: want.Detail}
		}
		return nil
	}, 16)
	return best, bv
}

func (c *checker) shrink(node string, p *sim.Program, want *sim.Violation) (*sim.Program, *sim.Violation) {
	f := filepath.Join(c.tmp, fmt.Sprintf("shrink-%d.json", time.Now().UnixNano()))
	os.WriteFile(f, p.JSON(), 0o644)
	defer os.Remove(f)
	defer os.Remove(f + ".out")
	wj, _ := json.Marshal(want)
	env := []string{"VERIF_MODE=shrink", "VERIF_PROP=" + c.prop, "VERIF_PROGRAM=" + f, "VERIF_OUT=" + f + ".out", "VERIF_WANT=" + string(wj), "VERIF_KNOWN=" + c.known, "VERIF_TIER=" + c.tier}
	budget := 300
	if want.Class == "crash" || want.Class == "data-race" {
		env = append(env, "VERIF_SUBPROC=1")
		budget = 120
	}
	env = append(env, "VERIF_BUDGET="+strconv.Itoa(budget))
	gmp := 1
	if p.Cfg != nil && p.Cfg["gomaxprocs"] > 0 {
		gmp = int(p.Cfg["gomaxprocs"])
	}
	_, werr := c.b.runWorker(node, env, gmp, 15*time.Minute)
	b, rerr := os.ReadFile(f + ".out")
	if werr != nil || rerr != nil {
		return p, want
	}
	var so struct {
		Program *sim.Program   `json:"program"`
		V       *sim.Violation `json:"v"`
	}
	if json.Unmarshal(b, &so) != nil || so.Program == nil || so.V == nil {
		return p, want
	}
	return so.Program, so.V
}

func (c *checker) genProgram(node string, idx uint64) (*sim.Program, error) {
	out, err := c.b.runWorker(node, []string{"VERIF_MODE=gen", "VERIF_PROP=" + c.prop, "VERIF_SEED=" + strconv.FormatUint(c.seed, 10), "VERIF_FROM=" + strconv.FormatUint(idx, 10), "VERIF_TIER=" + c.tier}, 1, time.Minute)
	if err != nil {
		return nil, fmt.Errorf("gen: %v: %s", err, out)
	}
	for _, l := range strings.Split(out, "\n") {
		if strings.HasPrefix(l, "{") {
			return sim.ParseProgram([]byte(l))
		}
	}
	return nil, fmt.Errorf("gen: no program in output")
}

// readWAL attributes a dead worker to the run it had logged before executing it.
func (c *checker) readWAL(node, path string) *violationRec {
	wb, err := os.ReadFile(path)
	if err != nil || len(wb) < 24 || binary.LittleEndian.Uint64(wb[0:]) != 0x5645524946574131 {
		return nil
	}
	idx := binary.LittleEndian.Uint64(wb[8:])
	p, err := c.genProgram(node, idx)
	if err != nil {
		c.infra("cannot regenerate program of run %d: %v", idx, err)
		return nil
	}
	return &violationRec{Idx: idx, Seed: binary.LittleEndian.Uint64(wb[16:]), Program: p}
}

type job struct {
	node     string
	chunk    int
	from, to uint64
	out      string
}

type reported struct {
	node   string
	node2  string
	idx    uint64
	v      *sim.Violation
	p      *sim.Program
	replay string
}

func check(prop, tier string) int {
	start := time.Now()
	seed := uint64(1)
	if s := os.Getenv("VERIF_SEED"); s != "" {
		v, err := strconv.ParseInt(s, 10, 64)
		if err != nil {
			fmt.Fprintf(os.Stderr, "verif: bad VERIF_SEED %q\n", s)
			return 2
		}
		seed = uint64(v)
	}
	fmt.Printf("VERIF_SEED=%d property=%s tier=%s\n", int64(seed), prop, tier)
	tmp, err := os.MkdirTemp(filepath.Join(verifRoot, "build"), prop+"-")
	if err != nil {
		os.MkdirAll(filepath.Join(verifRoot, "build"), 0o755)
		tmp, err = os.MkdirTemp(filepath.Join(verifRoot, "build"), prop+"-")
		if err != nil {
			fmt.Fprintln(os.Stderr, "verif:", err)
			return 2
		}
	}
	defer os.RemoveAll(tmp)
	c := &checker{prop: prop, tier: tier, seed: seed, tmp: tmp, b: &builder{dir: tmp, bins: map[string]string{}}}

	// describe
	descOut := filepath.Join(tmp, "desc.json")
	if out, err := c.b.runWorker("avx2", []string{"VERIF_MODE=describe", "VERIF_PROP=" + prop, "VERIF_OUT=" + descOut}, 1, 5*time.Minute); err != nil {
		fmt.Fprintf(os.Stderr, "verif: build/describe failed: %v\n%s\n", err, out)
		return 2
	}
	db, _ := os.ReadFile(descOut)
	if err := json.Unmarshal(db, &c.d); err != nil {
		fmt.Fprintln(os.Stderr, "verif: describe:", err)
		return 2
	}
	nodeList := c.d.NodesQuick
	secs := c.d.QuickSecs
	if tier == "thorough" {
		nodeList = c.d.NodesThorough
		secs = c.d.ThoroughSecs
	}
	if s := os.Getenv("VERIF_SECS"); s != "" {
		if v, err := strconv.Atoi(s); err == nil {
			secs = v
		}
	}
	// build all binaries up front (in parallel)
	kinds := map[string]bool{}
	for _, n := range nodeList {
		kinds[nodes[n].Bin] = true
	}
	{
		var wg sync.WaitGroup
		errs := make(chan error, 8)
		for k := range kinds {
			wg.Add(1)
			go func(k string) {
				defer wg.Done()
				bb := &builder{dir: tmp, bins: map[string]string{}}
				p, err := bb.build(k)
				if err != nil {
					errs <- err
					return
				}
				c.b.mu.Lock()
				c.b.bins[k] = p
				c.b.mu.Unlock()
			}(k)
		}
		wg.Wait()
		close(errs)
		for err := range errs {
			fmt.Fprintln(os.Stderr, "verif:", err)
			return 2
		}
	}
	buildSecs := time.Since(start).Seconds()

	// known findings
	var openKeys []string
	findings := loadFindings()
	for _, f := range findings {
		if f.Property == prop && f.Status == "open" {
			openKeys = append(openKeys, f.Key)
		}
	}
	sort.Strings(openKeys)
	c.known = strings.Join(openKeys, ",")

	var violations []reported
	knownLines := 0
	findingReplays := 0
	findingHangs := 0
	// the recorded programs of all findings of this property, each in a fresh process (in parallel; judged in order)
	type findingRun struct {
		f    finding
		rf   replayFile
		ro   *replayOut
		died bool
		out  string
		err  error
	}
	var fruns []*findingRun
	for _, f := range findings {
		if f.Property != prop || f.Replay == "" {
			continue
		}
		rb, err := os.ReadFile(filepath.Join(verifRoot, f.Replay))
		if err != nil {
			c.infra("finding %s: %v", f.Key, err)
			continue
		}
		fr := &findingRun{f: f}
		if err := json.Unmarshal(rb, &fr.rf); err != nil || fr.rf.Program == nil {
			c.infra("finding %s: bad replay file", f.Key)
			continue
		}
		fruns = append(fruns, fr)
	}
	{
		sem := make(chan struct{}, runtime.NumCPU())
		var fwg sync.WaitGroup
		for _, fr := range fruns {
			fwg.Add(1)
			sem <- struct{}{}
			go func(fr *findingRun) {
				defer func() { <-sem; fwg.Done() }()
				fr.ro, fr.died, fr.out, fr.err = c.replayProgram(fr.rf.Node, fr.rf.Program, false)
			}(fr)
		}
		fwg.Wait()
	}
	for _, fr := range fruns {
		f, rf, ro, died, out, err := fr.f, fr.rf, fr.ro, fr.died, fr.out, fr.err
		findingReplays++
		if err != nil && strings.Contains(err.Error(), "watchdog") {
			// the recorded program of a finding no longer returns: confirm (two more executions) and report
			if findingHangs >= 1 {
				continue // already reported; every further confirmation costs two run budgets
			}
			if v, cerr := c.confirm(rf.Node, rf.Program); cerr == nil && v != nil {
				findingHangs++
				violations = append(violations, reported{node: rf.Node, v: v, p: rf.Program})
				continue
			}
		}
		if err != nil {
			c.infra("finding %s: %v", f.Key, err)
			continue
		}
		switch f.Status {
		case "open":
			if died {
				violations = append(violations, reported{node: rf.Node, v: &sim.Violation{Class: "crash", Op: -1, Detail: crashDetail(out)}, p: rf.Program})
			} else if ro.V != nil {
				violations = append(violations, reported{node: rf.Node, v: ro.V, p: rf.Program})
			} else if ro.Result.Counters["known:"+f.Key] > 0 {
				fmt.Printf("KNOWN-FINDING: property=%s %s\n", prop, f.What)
				knownLines++
			} else {
				fmt.Printf("note: known finding %s no longer manifests on its recorded program\n", f.Key)
			}
		case "fixed":
			// regression program: must pass now
			if died {
				violations = append(violations, reported{node: rf.Node, v: &sim.Violation{Class: "crash", Op: -1, Detail: "regression of fixed finding " + f.Key + ": " + crashDetail(out)}, p: rf.Program})
			} else if ro.V != nil {
				violations = append(violations, reported{node: rf.Node, v: ro.V, p: rf.Program})
			}
		}
	}

	// determinism spot check: the first indices, executed in separate processes at GOMAXPROCS 1 and 16
	detSeeds, detDiv := 0, 0
	{
		n := uint64(24)
		var outs [2][]byte
		for k, gmp := range []int{1, 16} {
			o := filepath.Join(tmp, fmt.Sprintf("det-%d", k))
			env := []string{"VERIF_MODE=explore", "VERIF_PROP=" + prop, "VERIF_SEED=" + strconv.FormatUint(seed, 10), "VERIF_FROM=0", "VERIF_TO=" + strconv.FormatUint(n, 10), "VERIF_OUT=" + o, "VERIF_TIER=" + tier, "VERIF_KNOWN=" + c.known, "VERIF_WAL=" + o + ".wal"}
			if _, err := c.b.runWorker(nodeList[0], env, gmp, 10*time.Minute); err != nil {
				// a crash here will be found again by the exploration below
				break
			}
			outs[k], _ = os.ReadFile(o + ".bin")
		}
		if outs[0] != nil && outs[1] != nil {
			detSeeds = len(outs[0]) / 17
			if !bytes.Equal(outs[0], outs[1]) {
				detDiv++
				c.infra("determinism spot check diverged between GOMAXPROCS=1 and 16")
			}
		}
	}

	// exploration
	nworkers := runtime.NumCPU()
	if s := os.Getenv("VERIF_WORKERS"); s != "" {
		if v, err := strconv.Atoi(s); err == nil && v > 0 {
			nworkers = v
		}
	}
	per := uint64(c.d.RunsPerJob)
	if per == 0 {
		per = 256
	}
	maxRuns := uint64(0)
	if s := os.Getenv("VERIF_RUNS"); s != "" {
		maxRuns, _ = strconv.ParseUint(s, 10, 64)
	}
	exploreStart := time.Now()
	softDeadline := exploreStart.Add(time.Duration(secs) * time.Second)
	hardDeadline := exploreStart.Add(time.Duration(secs)*time.Second*3 + 10*time.Minute)

	jobs := make(chan job)
	type jobDone struct {
		j    job
		sum  *jobSummary
		died bool
		out  string
		wal  *violationRec
		err  error
		hang bool
	}
	results := make(chan jobDone, nworkers*2)
	var wg sync.WaitGroup
	for w := 0; w < nworkers; w++ {
		wg.Add(1)
		go func(w int) {
			defer wg.Done()
			for j := range jobs {
				env := []string{"VERIF_MODE=explore", "VERIF_PROP=" + prop, "VERIF_SEED=" + strconv.FormatUint(seed, 10),
					"VERIF_FROM=" + strconv.FormatUint(j.from, 10), "VERIF_TO=" + strconv.FormatUint(j.to, 10),
					"VERIF_OUT=" + j.out, "VERIF_WAL=" + j.out + ".wal", "VERIF_TIER=" + tier, "VERIF_KNOWN=" + c.known,
					"VERIF_SAMPLES=1", "VERIF_DEADLINE=" + strconv.FormatInt(hardDeadline.UnixNano(), 10)}
				jobTimeout := time.Until(hardDeadline) + 5*time.Minute
				if c.d.HangSecs > 0 {
					jobTimeout = time.Duration(3*c.d.HangSecs) * time.Second
				}
				out, werr := c.b.runWorker(j.node, env, 1, jobTimeout)
				jd := jobDone{j: j, out: out}
				sb, rerr := os.ReadFile(j.out + ".json")
				if rerr == nil {
					jd.sum = &jobSummary{}
					if err := json.Unmarshal(sb, jd.sum); err != nil {
						jd.err = err
					}
				}
				if werr != nil || rerr != nil {
					if werr != nil && strings.Contains(out, watchdogMarker) {
						// the worker's own per-run watchdog ended it: the logged run is a hang candidate
						jd.died = true
						jd.hang = true
						jd.wal = c.readWAL(j.node, j.out+".wal")
					} else if werr != nil && strings.Contains(werr.Error(), "watchdog") && c.d.HangSecs == 0 {
						jd.err = werr
					} else if werr != nil && strings.Contains(werr.Error(), "watchdog") {
						jd.died = true
						jd.hang = true
						jd.wal = c.readWAL(j.node, j.out+".wal")
					} else {
						jd.died = true
						jd.wal = c.readWAL(j.node, j.out+".wal")
					}
				}
				results <- jd
			}
		}(w)
	}

	// aggregate state
	type chunkState struct {
		bins map[string][]byte
		from uint64
	}
	chunks := map[int]*chunkState{}
	counters := map[string]int64{}
	perNode := map[string]uint64{}
	var totalRuns, totalOps uint64
	var simNS int64
	distinct := map[uint64]struct{}{}
	const distinctCap = 4_000_000
	distinctSaturated := false
	var samples []sampleRec
	var candidates []reported
	crossDiv := 0
	hangs := 0

	handle := func(jd jobDone) []job {
		var requeue []job
		j := jd.j
		if jd.err != nil {
			c.infra("job %s chunk %d: %v", j.node, j.chunk, jd.err)
			return nil
		}
		if jd.died {
			if jd.wal != nil {
				cls := "crash"
				if strings.Contains(jd.out, "DATA RACE") {
					cls = "data-race"
				}
				if jd.hang {
					cls = "hang"
				}
				candidates = append(candidates, reported{node: j.node, idx: jd.wal.Idx, p: jd.wal.Program, v: &sim.Violation{Class: cls, Op: -1, Detail: crashDetail(jd.out)}})
				// continue the rest of the chunk in a new worker (its results are not cross-compared)
				if jd.hang {
					hangs++
				}
				if jd.wal.Idx+1 < j.to && len(candidates) < 50 && (!jd.hang || hangs <= 2) {
					requeue = append(requeue, job{node: j.node, chunk: -1, from: jd.wal.Idx + 1, to: j.to, out: j.out + "r"})
				}
			} else {
				c.infra("worker for %s chunk %d died with no write-ahead record: %s", j.node, j.chunk, crashDetail(jd.out))
			}
			return requeue
		}
		s := jd.sum
		totalRuns += s.Done
		perNode[j.node] += s.Done
		totalOps += uint64(s.Ops)
		simNS += s.SimNS
		for k, v := range s.Counters {
			counters[k] += v
		}
		for _, v := range s.Violations {
			candidates = append(candidates, reported{node: j.node, idx: v.Idx, p: v.Program, v: v.V})
		}
		if len(samples) < 3 && len(s.Samples) > 0 {
			samples = append(samples, s.Samples[0])
		}
		bin, _ := os.ReadFile(j.out + ".bin")
		os.Remove(j.out + ".bin")
		os.Remove(j.out + ".json")
		os.Remove(j.out + ".wal")
		for off := 0; off+17 <= len(bin); off += 17 {
			if bin[off+16] == 1 && !distinctSaturated {
				distinct[binary.LittleEndian.Uint64(bin[off+8:])] = struct{}{}
				if len(distinct) >= distinctCap {
					distinctSaturated = true
				}
			}
		}
		if c.d.Cross && j.chunk >= 0 {
			cs := chunks[j.chunk]
			if cs == nil {
				cs = &chunkState{bins: map[string][]byte{}, from: j.from}
				chunks[j.chunk] = cs
			}
			cs.bins[j.node] = bin
			if len(cs.bins) == len(nodeList) {
				ref := cs.bins[nodeList[0]]
				for _, n := range nodeList[1:] {
					o := cs.bins[n]
					m := len(ref)
					if len(o) < m {
						m = len(o)
					}
					for off := 0; off+17 <= m; off += 17 {
						if !bytes.Equal(ref[off:off+8], o[off:off+8]) {
							crossDiv++
							if crossDiv <= 5 {
								candidates = append(candidates, reported{node: nodeList[0], node2: n, idx: cs.from + uint64(off/17), v: &sim.Violation{Class: "cross-config", Op: -1, Detail: "trace digest differs between " + nodeList[0] + " and " + n}})
							}
							break
						}
					}
				}
				delete(chunks, j.chunk)
			}
		}
		return nil
	}

	// feeder
	go func() {
		defer close(jobs)
		chunk := 0
		var next uint64
		for {
			if time.Now().After(softDeadline) {
				return
			}
			if maxRuns > 0 && next >= maxRuns {
				return
			}
			to := next + per
			if maxRuns > 0 && to > maxRuns {
				to = maxRuns
			}
			for _, n := range nodeList {
				jobs <- job{node: n, chunk: chunk, from: next, to: to, out: filepath.Join(tmp, fmt.Sprintf("job-%s-%d", n, chunk))}
			}
			next = to
			chunk++
		}
	}()
	var pending []job
	go func() { wg.Wait(); close(results) }()
	for jd := range results {
		rq := handle(jd)
		pending = append(pending, rq...)
	}
	// requeued remainder jobs after crashes (sequential, rare)
	for len(pending) > 0 && time.Now().Before(hardDeadline) {
		j := pending[0]
		pending = pending[1:]
		env := []string{"VERIF_MODE=explore", "VERIF_PROP=" + prop, "VERIF_SEED=" + strconv.FormatUint(seed, 10),
			"VERIF_FROM=" + strconv.FormatUint(j.from, 10), "VERIF_TO=" + strconv.FormatUint(j.to, 10),
			"VERIF_OUT=" + j.out, "VERIF_WAL=" + j.out + ".wal", "VERIF_TIER=" + tier, "VERIF_KNOWN=" + c.known,
			"VERIF_DEADLINE=" + strconv.FormatInt(time.Now().Add(20*time.Second).UnixNano(), 10)}
		out, werr := c.b.runWorker(j.node, env, 1, 5*time.Minute)
		jd := jobDone{j: j, out: out}
		if sb, rerr := os.ReadFile(j.out + ".json"); rerr == nil && werr == nil {
			jd.sum = &jobSummary{}
			json.Unmarshal(sb, jd.sum)
		} else {
			jd.died = true
			jd.wal = c.readWAL(j.node, j.out+".wal")
		}
		pending = append(pending, handle(jd)...)
	}
	exploreSecs := time.Since(exploreStart).Seconds()

	// candidates: confirm in a fresh process, minimise, write replay files
	sort.SliceStable(candidates, func(i, j int) bool { return candidates[i].idx < candidates[j].idx })
	seenClass := map[string]int{}
	for _, cand := range candidates {
		key := cand.v.Class + "/" + cand.v.OpKind + "/" + cand.node
		if seenClass[key] >= 2 || len(violations) >= 8 {
			continue
		}
		if cand.v.Class == "hang" && seenClass["hang"] >= 2 {
			continue // every confirmation of a hang costs two run budgets
		}
		if cand.v.Class == "cross-config" {
			p, err := c.genProgram(cand.node, cand.idx)
			if err != nil {
				c.infra("cross-config candidate idx %d: %v", cand.idx, err)
				continue
			}
			cand.p = p
			v, err := c.confirmCross(cand.node, cand.node2, p)
			if err != nil {
				c.infra("cross-config candidate idx %d: %v", cand.idx, err)
				continue
			}
			if v == nil {
				c.infra("cross-config divergence at run %d between %s and %s did not reproduce", cand.idx, cand.node, cand.node2)
				continue
			}
			cand.v = v
			cand.p, cand.v = c.shrinkCross(cand.node, cand.node2, p, v)
			seenClass[key]++
			violations = append(violations, cand)
			continue
		}
		v, err := c.confirm(cand.node, cand.p)
		if err != nil {
			c.infra("candidate idx %d on %s: %v", cand.idx, cand.node, err)
			continue
		}
		if v == nil && c.d.WarmKnob && cand.p.Cfg["warm"] == 0 {
			// The run was not the first of its worker process: process-wide lazily built tables had been built by earlier
			// runs. A fresh process builds them during this run, and the synchronisation of that first use can order
			// accesses that are otherwise unordered. The same program with the warm-up knob set states that context
			// explicitly (the executor first uses every package-level singleton from the scheduler goroutine).
			wp := *cand.p
			wp.Cfg = map[string]int64{}
			for k, x := range cand.p.Cfg {
				wp.Cfg[k] = x
			}
			wp.Cfg["warm"] = 1
			if v2, err2 := c.confirm(cand.node, &wp); err2 == nil && v2 != nil {
				cand.p, v = &wp, v2
			}
		}
		if v == nil {
			c.infra("candidate violation (%s) at run %d on %s did not reproduce in a fresh process", cand.v.Class, cand.idx, cand.node)
			continue
		}
		if v.Class == "crash" || v.Class == "data-race" {
			v.OpKind = cand.v.OpKind
		}
		seenClass[key]++
		if v.Class == "hang" {
			seenClass["hang"]++
		}
		cand.v = v
		if v.Class == "hang" {
			sp, _ := c.shrinkHang(cand.node, cand.p, v)
			if len(sp.JSON()) < len(cand.p.JSON()) {
				if w, err := c.confirm(cand.node, sp); err == nil && w != nil && w.Class == "hang" {
					cand.p, cand.v = sp, w
				}
			}
		} else {
			sp, sv := c.shrink(cand.node, cand.p, v)
			// the minimised program must itself reproduce in a fresh process; otherwise keep the confirmed original
			if w, err := c.confirm(cand.node, sp); err == nil && w != nil && w.Class == sv.Class {
				cand.p, cand.v = sp, sv
			}
		}
		violations = append(violations, cand)
	}

	// report
	os.MkdirAll(filepath.Join(verifRoot, "replays"), 0o755)
	for i := range violations {
		v := &violations[i]
		name := fmt.Sprintf("%s-seed%d-run%d-%s.json", prop, int64(seed), v.idx, v.node)
		path := filepath.Join(verifRoot, "replays", name)
		rf := replayFile{Property: prop, Node: v.node, Node2: v.node2, Seed: seed, Idx: v.idx, Expect: v.v, Program: v.p}
		rb, _ := json.MarshalIndent(&rf, "", " ")
		os.WriteFile(path, rb, 0o644)
		v.replay = path
		fmt.Printf("violation: %s\n", v.v.String())
		fmt.Printf("VIOLATION property=%s replay=%s\n", prop, path)
	}

	// evidence
	nd := len(distinct)
	ev := map[string]any{
		"property_id": prop,
		"tier":        tier,
		"seed":        int64(seed),
		"level":       c.d.Level,
		"wall_s":      time.Since(start).Seconds(),
		"violations":  len(violations),
		"assumptions": c.d.Assume,
	}
	var sampleList []any
	for _, s := range samples {
		sampleList = append(sampleList, map[string]any{"run_index": s.Idx, "program": s.Program})
	}
	faults := map[string]int64{}
	probes := map[string]int64{}
	other := map[string]int64{}
	for k, v := range counters {
		switch {
		case strings.HasPrefix(k, "fault:"):
			faults[strings.TrimPrefix(k, "fault:")] = v
		case strings.HasPrefix(k, "probe:"):
			probes[strings.TrimPrefix(k, "probe:")] = v
		default:
			other[k] = v
		}
	}
	cov := map[string]any{
		"evaluations":               totalRuns,
		"distinct_nontrivial":       nd,
		"distinct_count_saturated":  distinctSaturated,
		"rule":                      c.d.Rule,
		"samples":                   sampleList,
		"operations_executed":       totalOps,
		"runs_per_node":             perNode,
		"nodes":                     nodeList,
		"cross_config_compared":     c.d.Cross,
		"cross_config_divergences":  crossDiv,
		"faults_fired":              faults,
		"probes":                    probes,
		"counters":                  other,
		"simulated_time_s":          float64(simNS) / 1e9,
		"runs_per_hour":             float64(totalRuns) / exploreSecs * 3600,
		"explore_wall_s":            exploreSecs,
		"build_wall_s":              buildSecs,
		"workers":                   nworkers,
		"real_components":           c.d.Real,
		"stub_components":           c.d.Stubs,
		"determinism_spot_check":    map[string]any{"seeds": detSeeds, "processes": 2, "gomaxprocs": []int{1, 16}, "divergences": detDiv},
		"known_findings_reported":   knownLines,
		"finding_programs_replayed": findingReplays,
		"infrastructure_errors":     c.infraErr,
		"exhaustive":                false,
	}
	ev["coverage"] = cov
	os.MkdirAll(filepath.Join(verifRoot, "evidence"), 0o755)
	eb, _ := json.MarshalIndent(ev, "", " ")
	os.WriteFile(filepath.Join(verifRoot, "evidence", prop+".json"), eb, 0o644)

	fmt.Printf("runs=%d nodes=%v ops=%d distinct_nontrivial=%d explore=%.1fs build=%.1fs violations=%d known=%d\n", totalRuns, nodeList, totalOps, nd, exploreSecs, buildSecs, len(violations), knownLines)
	if len(violations) > 0 {
		return 1
	}
	if len(c.infraErr) > 0 || totalRuns == 0 {
		return 2
	}
	return 0
}

// confirmCross replays p on two nodes with event logging and reports the first differing event.
func (c *checker) confirmCross(n1, n2 string, p *sim.Program) (*sim.Violation, error) {
	r1, d1, o1, err := c.replayProgram(n1, p, true)
	if err != nil {
		return nil, err
	}
	r2, d2, o2, err := c.replayProgram(n2, p, true)
	if err != nil {
		return nil, err
	}
	if d1 || d2 {
		return &sim.Violation{Class: "crash", Op: -1, Detail: crashDetail(o1 + o2)}, nil
	}
	if r1.Result.Trace == r2.Result.Trace {
		return nil, nil
	}
	l1, l2 := r1.Result.Log, r2.Result.Log
	det := "trace digests differ"
	for i := 0; i < len(l1) && i < len(l2); i++ {
		if l1[i] != l2[i] {
			det = fmt.Sprintf("event %d differs: %s: %q vs %s: %q", i, n1, l1[i], n2, l2[i])
			break
		}
	}
	return &sim.Violation{Class: "cross-config", Op: -1, Detail: det}, nil
}

func (c *checker) shrinkCross(n1, n2 string, p *sim.Program, v *sim.Violation) (*sim.Program, *sim.Violation) {
	best, bv, _ := sim.Shrink(p, v, func(q *sim.Program) *sim.Violation {
		w, err := c.confirmCross(n1, n2, q)
		if err != nil {
			return nil
		}
		return w
	}, 60)
	return best, bv
}

func replayCmd(path string) int {
	rb, err := os.ReadFile(path)
	if err != nil {
		fmt.Fprintln(os.Stderr, "verif:", err)
		return 2
	}
	var rf replayFile
	if err := json.Unmarshal(rb, &rf); err != nil || rf.Program == nil {
		fmt.Fprintln(os.Stderr, "verif: bad replay file")
		return 2
	}
	os.MkdirAll(filepath.Join(verifRoot, "build"), 0o755)
	tmp, err := os.MkdirTemp(filepath.Join(verifRoot, "build"), "replay-")
	if err != nil {
		fmt.Fprintln(os.Stderr, "verif:", err)
		return 2
	}
	defer os.RemoveAll(tmp)
	c := &checker{prop: rf.Property, tier: "quick", seed: rf.Seed, tmp: tmp, b: &builder{dir: tmp, bins: map[string]string{}}}
	var openKeys []string
	for _, f := range loadFindings() {
		if f.Property == rf.Property && f.Status == "open" {
			openKeys = append(openKeys, f.Key)
		}
	}
	sort.Strings(openKeys)
	c.known = strings.Join(openKeys, ",")
	fmt.Printf("replaying %s: property=%s node=%s ops=%d\n", path, rf.Property, rf.Node, len(rf.Program.Ops))
	var v *sim.Violation
	if rf.Node2 != "" {
		v, err = c.confirmCross(rf.Node, rf.Node2, rf.Program)
	} else {
		if rf.Expect != nil && rf.Expect.Class == "hang" {
			c.replayTimeout = 90 * time.Second
		}
		ro, died, out, e := c.replayProgram(rf.Node, rf.Program, true)
		if e != nil && strings.Contains(e.Error(), "watchdog") {
			fmt.Printf("violation: hang: %v\n", e)
			fmt.Printf("VIOLATION property=%s replay=%s\n", rf.Property, path)
			return 1
		}
		err = e
		if err == nil {
			if died {
				v = &sim.Violation{Class: "crash", Op: -1, Detail: crashDetail(out)}
				if strings.Contains(out, "DATA RACE") {
					v.Class = "data-race"
				}
			} else {
				v = ro.V
				if os.Getenv("VERIF_SHOWLOG") == "1" {
					for _, l := range ro.Result.Log {
						fmt.Println("  ", l)
					}
				}
				for _, k := range sim.SortedKeys(ro.Result.Counters) {
					if strings.HasPrefix(k, "known:") {
						fmt.Printf("KNOWN-FINDING: property=%s %s (x%d)\n", rf.Property, strings.TrimPrefix(k, "known:"), ro.Result.Counters[k])
					}
				}
			}
		}
	}
	if err != nil {
		fmt.Fprintln(os.Stderr, "verif:", err)
		return 2
	}
	if v == nil {
		fmt.Println("no violation on this tree")
		return 0
	}
	fmt.Printf("violation: %s\n", v.String())
	fmt.Printf("VIOLATION property=%s replay=%s\n", rf.Property, path)
	return 1
}

// determinismCmd: many seeds, each executed in >= 3 processes at GOMAXPROCS 1, 4, 16, per node; full event logs compared.
func determinismCmd(prop string) int {
	os.MkdirAll(filepath.Join(verifRoot, "build"), 0o755)
	tmp, err := os.MkdirTemp(filepath.Join(verifRoot, "build"), "det-")
	if err != nil {
		fmt.Fprintln(os.Stderr, "verif:", err)
		return 2
	}
	defer os.RemoveAll(tmp)
	c := &checker{prop: prop, tier: "quick", seed: 1, tmp: tmp, b: &builder{dir: tmp, bins: map[string]string{}}}
	descOut := filepath.Join(tmp, "desc.json")
	if out, err := c.b.runWorker("avx2", []string{"VERIF_MODE=describe", "VERIF_PROP=" + prop, "VERIF_OUT=" + descOut}, 1, 5*time.Minute); err != nil {
		fmt.Fprintf(os.Stderr, "verif: build/describe failed: %v\n%s\n", err, out)
		return 2
	}
	db, _ := os.ReadFile(descOut)
	json.Unmarshal(db, &c.d)
	var openKeys []string
	for _, f := range loadFindings() {
		if f.Property == prop && f.Status == "open" {
			openKeys = append(openKeys, f.Key)
		}
	}
	c.known = strings.Join(openKeys, ",")
	nseeds := 48
	if s := os.Getenv("VERIF_DET_SEEDS"); s != "" {
		nseeds, _ = strconv.Atoi(s)
	}
	div := 0
	procs := 0
	var mu sync.Mutex
	var wg sync.WaitGroup
	sem := make(chan struct{}, runtime.NumCPU())
	for _, vs := range []uint64{1, 7, 1234567} {
		for _, node := range c.d.NodesQuick {
			wg.Add(1)
			go func(vs uint64, node string) {
				defer wg.Done()
				var ref []byte
				for k, gmp := range []int{1, 4, 16, 1} {
					sem <- struct{}{}
					o := filepath.Join(tmp, fmt.Sprintf("d-%d-%s-%d", vs, node, k))
					env := []string{"VERIF_MODE=explore", "VERIF_PROP=" + prop, "VERIF_SEED=" + strconv.FormatUint(vs, 10), "VERIF_FROM=0", "VERIF_TO=" + strconv.Itoa(nseeds), "VERIF_OUT=" + o, "VERIF_TIER=quick", "VERIF_KNOWN=" + c.known}
					_, err := c.b.runWorker(node, env, gmp, 20*time.Minute)
					<-sem
					b, _ := os.ReadFile(o + ".bin")
					mu.Lock()
					procs++
					if err != nil {
						fmt.Printf("seed %d node %s gomaxprocs %d: worker error %v\n", vs, node, gmp, err)
					}
					if k == 0 {
						ref = b
					} else if !bytes.Equal(ref, b) {
						div++
						fmt.Printf("DIVERGENCE seed %d node %s gomaxprocs %d\n", vs, node, gmp)
					}
					mu.Unlock()
				}
			}(vs, node)
		}
	}
	wg.Wait()
	fmt.Printf("determinism %s: %d run seeds x 3 VERIF_SEED values x %d nodes, %d processes, divergences=%d\n", prop, nseeds, len(c.d.NodesQuick), procs, div)
	if div > 0 {
		return 2
	}
	return 0
}
