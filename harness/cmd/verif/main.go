// Command verif is the driver of the deterministic simulation checks.
//
//	verif check <PROP> [quick|thorough]
//	verif replay <file>
//	verif determinism <PROP>       (development gate: many seeds x processes x GOMAXPROCS)
//
// Exit codes: 0 property held on everything explored; 1 violation (a line
// "VIOLATION property=<id> replay=<path>" is printed); 2 infrastructure
// trouble (build failure, watchdog, non-reproducible candidate) - never a
// verdict about the property.
package main

import (
	"fmt"
	"os"
)

func main() {
	if len(os.Args) < 2 {
		usage()
	}
	switch os.Args[1] {
	case "check":
		if len(os.Args) < 3 {
			usage()
		}
		tier := "quick"
		if len(os.Args) >= 4 {
			tier = os.Args[3]
		}
		if t := os.Getenv("VERIF_TIER"); t == "quick" || t == "thorough" {
			tier = t
		}
		os.Exit(check(os.Args[2], tier))
	case "replay":
		if len(os.Args) < 3 {
			usage()
		}
		os.Exit(replayCmd(os.Args[2]))
	case "determinism":
		if len(os.Args) < 3 {
			usage()
		}
		os.Exit(determinismCmd(os.Args[2]))
	default:
		usage()
	}
}

func usage() {
	fmt.Fprintln(os.Stderr, "usage: verif check <PROP> [quick|thorough] | verif replay <file> | verif determinism <PROP>")
	os.Exit(2)
}
