#!/bin/bash
# usage: tools/try_seeded.sh <patch.diff> <PROP> [secs] [tier]
# Applies a seeded property-breaking patch to /repo, runs the check, and ALWAYS reverts /repo.
set -u
patch="$1"; prop="$2"; secs="${3:-}"; tier="${4:-quick}"
cd /repo || exit 2
if [ -n "$(git status --porcelain)" ]; then echo "try_seeded: /repo is not clean" >&2; exit 2; fi
if ! git apply --check "$patch" 2>/dev/null; then echo "try_seeded: patch does not apply"; exit 3; fi
git apply "$patch"
trap 'git -C /repo checkout -- . ; git -C /repo clean -fdq; git -C /verif checkout -- evidence/ 2>/dev/null' EXIT
cd /verif
if [ -n "$secs" ]; then export VERIF_SECS="$secs"; fi
./check.sh "$prop" "$tier" 2>&1 | grep -E "^(violation|VIOLATION|runs=|KNOWN|verif:)" | cut -c1-260 | sort | uniq -c | sort -rn | head -12
