#!/usr/bin/env python3
"""Regenerates /verif/MANIFEST.json from the table below (kept by hand)."""
import json, subprocess

GO = "export GOFLAGS=-mod=mod GOPROXY=off GOSUMDB=off GOTOOLCHAIN=local; "

claimed = {
 "C01": dict(cat="exploration", design="DESIGN.md section 6 (C01)",
   text="Seeded simulation of SM3 hash-object histories (simulator-chosen Write splits, Sum, Sum-append, Reset, state export, crash-and-restore from the last exported state, fork) and of the SM3 KDF (every len(z) mod 64 x block-count class, prefix clause, kdf.Kdf optimised and marshal paths) against an independent SM3 model, on five dispatch tiers (avx2, avx, sse, scalar asm, purego) with per-run cross-tier trace equality. Sampling, not proof.",
   note="Trusted: the harness SM3 model (checked against GB/T 32905 vectors at every worker start), Go 1.26.8 toolchain, GODEBUG=cpu.* tier selection of the vendored cpu package. Only x86-64 tiers.",
   technique="deterministic simulation: seeded operation/crash histories on a hash object vs reference model, multi-configuration nodes, ddmin replay"),
 "C03": dict(cat="exploration", design="DESIGN.md section 6 (C03)",
   text="Seeded simulation of call histories on one mode object over SM4 for ECB, CBC, CFB, OFB, CTR, XTS (IEEE and GB/T 17964, tweak and sector forms), BC, OFBNLF and HCTR, on three code paths (real sm4 block with fused assembly, Block-only wrapper = generic composition, Block+batch wrapper = batched Go paths): the simulator decides the partition of the message into calls, SetIV re-synchronisations, XTS continuation calls followed by a unit with any partial tail, and buffer placement (in place, disjoint, larger dst, guard page directly after/before, unaligned); every call is compared with independent textbook models at the same stream position, canaries/guard pages observe out-of-slice access, a one-call decryption of everything encrypted checks inversion, and six tiers (avx2, avx, sse, noaes, aesni1, purego) are compared per run. Sampling, not proof.",
   note="Trusted: harness/model/modes over harness/model/sm4m (anchored on SP 800-38A, IEEE 1619, GB/T 17964 vectors at worker start). Writes into dst beyond len(src) are treated as out-of-slice (crypto/cipher.BlockMode contract). Known finding hctr-tweak-split is reported, not repaired. The batch wrapper hands the assembly exactly one batch per call; behaviour of non-amd64 batch implementations is out of reach.",
   technique="deterministic simulation: seeded call-partition histories on mode objects vs reference models, guard-page fault observation with write-ahead crash attribution, multi-configuration nodes, ddmin replay"),
 "C10": dict(cat="exploration", design="DESIGN.md section 6 (C10)",
   text="Seeded simulation of a KGC node, user nodes and key-exchange pairs for SM9: master keys and ephemeral scalars come from the scripted reader, user keys travel from the KGC in serialised form (all key kinds are serialised, parsed, compared), user IDs cover every length mod 64, and signatures, wrapped keys, ciphertexts (XOR/ECB/CBC/CFB/OFB, raw and ASN.1) and the three key-exchange messages travel on a faulty transport (value byte altered, every value byte altered, truncation, other ID / message / hid / recipient, corrupted, zeroed, truncated or dropped key-exchange messages). Oracle without an independent pairing model: GM/T 0044 example transcripts reproduced through the public API, round trips, rejection of every alteration of a value byte, SM3-KDF / MAC / XOR-layout reconstruction by the model over the library's pairing value, key-exchange agreement invariants, and per-run transcript-digest equality across avx2 / avx / noadx / purego (portability). Sampling, not proof.",
   note="Trusted: the library's own pairing and group arithmetic inside the oracle (no independent pairing model; stated in DESIGN.md section 4), harness SM3 model. Structure bytes and the unauthenticated ASN.1 mode field are only required not to panic / not to yield a different plaintext.",
   technique="deterministic simulation: multi-party (KGC, users, key-exchange pairs) runs with scripted randomness on a faulty transport; known-answer transcripts, KDF/MAC model, cross-configuration transcript equality; ddmin replay"),
 "C11": dict(cat="exploration", design="DESIGN.md section 6 (C11)",
   text="Seeded simulation of histories on one seekable ZUC cipher object (ZUC-128, ZUC-256, 128-EEA3; default and explicit state-bucket sizes 0..1024; sequential and positioned XOR calls forwards and backwards across rounds, words and buckets; in-place, larger-dst and guard-page buffers) and one MAC object (128-EIA3, ZUC-256 MAC with 32/64/128-bit tags; write splits, Sum, Finish with every bit-length class, Reset, abandon-and-reuse), each call compared with bit-serial models at absolute positions; five tiers compared per run. Sampling, not proof.",
   note="Trusted: harness/model/zucm (anchored on 3GPP and ZUC-256 vectors at worker start). Known finding zuc256-mac-tail (64/128-bit tags, more than 32 bits after the last 128-bit block) is reported, not repaired, and recognised only by exact equality with a model carrying precisely that deviation.",
   technique="deterministic simulation: seeded seek/write histories on stream and MAC objects vs bit-serial reference models, multi-configuration nodes, ddmin replay"),
 "C04": dict(cat="exploration", design="DESIGN.md section 6 (C04)",
   text="Weak fit, disclosed: the AEAD object has no seam, so only the record in transit is simulated. A sender seals records with SM4-GCM/CCM (all nonce and tag sizes the constructors admit, crafted 16-byte GCM nonces whose derived 32-bit counter wraps, dst prefix / in place / exact spare capacity / guard-page inputs); a faulty transport delivers each record untouched and altered - a seeded byte of nonce, AAD, ciphertext or tag, the exhaustive set of single-byte positions of a record (sampled above 700 bytes), truncation, extension, fields swapped in from another record - and a receiver opens it. Sealed bytes and every Open verdict/plaintext are compared with independent bit-serial GCM/CCM models over a model SM4; after a refused Open the output region must be zeroed or untouched; canaries observe writes outside dst. Six tiers compared per run. Sampling plus per-record fault enumeration, not proof.",
   note="Trusted: harness/model/aead (anchored on the GCM specification test cases and RFC 3610 vectors at worker start), model SM4. The first sentence of the property (exact output) is a pure function decided by plain model comparison on the untouched deliveries.",
   technique="deterministic simulation: sealed records on a simulated faulty transport (byte alteration enumeration, truncation, field substitution) vs reference models, multi-configuration nodes, ddmin replay"),
 "C17": dict(cat="exploration", design="DESIGN.md section 6 (C17)",
   text="Seeded simulation, inside a testing/synctest fake-clock bubble, of Hash/HMAC/CTR DRBG objects (SM3, SHA-1/2; SM4, AES-128/192/256; NIST and GM modes; test level and, in the thorough tier, level 2) over histories of generate (sizes 0..max+1, with/without additional input), reseed (valid and below-minimum entropy) and clock advances placed just below / on / past the GM time limit, and of the DrbgPrng reader wrapper over read/clock histories with a scripted entropy source failing (error, EOF, short read, data+EOF) at chosen call indices. Output bytes are compared with SP 800-90A models; the model's own reseed bookkeeping decides exactly which generate call must be refused, refused calls must leave the canary-filled buffer and the state untouched, wrapper output must equal the chained model requests reseeded with exactly the bytes the source served, and every source fault must surface as an error. Sampling, not proof.",
   note="Trusted: harness/model/drbgm (SP 800-90A text, anchored on CAVP vectors at worker start); GM/T 0105 deviations taken from the package documentation (standard text unavailable offline). Input-length validation is not mirrored (error => no effect, acceptance => equals model). At elapsed == GM interval either verdict is accepted. No backwards clock jumps under synctest.",
   technique="deterministic simulation: seeded generate/reseed/clock histories under a simulated clock and a fault-injecting entropy source vs reference model with reseed bookkeeping, ddmin replay"),
 "C06": dict(cat="exploration", design="DESIGN.md section 6 (C06)",
   text="Seeded simulation of signer nodes holding long-lived SM2 key objects (keys from bytes incl. d = 1, n-2; keys built as structs with d in {n-1, n, n+1, 0}), verifier nodes and a transport in between: signatures are produced through all three signing entry points with a scripted nonce and user IDs of 0..8191 bytes and delivered untouched and altered (byte substitution, every byte position, truncation, trailing bytes inside/outside the SEQUENCE, r/s replaced by 0, n, n+r, 2^256-1, n-s, negative, non-minimal, cross-delivery to another message / user ID / key / signature, random (r,s)); every delivered byte string goes to both verification entry points and the verdicts must equal the math/big model's (strict DER, range, GB/T 32918.2 equation) - this decides completeness and soundness on the delivered set; signing repeatedly with a scalar of n-1 or above must return an error every time. Three field-arithmetic tiers compared per run. Sampling, not proof.",
   note="Trusted: harness/model/sm2m (math/big affine arithmetic, hand-written strict DER reader; anchored on GB/T 32918.5 examples at worker start), SM3 model. Empty user ID = default user ID.",
   technique="deterministic simulation: key-object histories with scripted nonce reader and a faulty signature transport vs reference acceptance model, ddmin replay"),
 "C07": dict(cat="exploration", design="DESIGN.md section 6 (C07)",
   text="Seeded simulation of encryptor, relay and decryptor nodes for SM2 encryption: the ephemeral scalar comes from the scripted reader, so every ciphertext must equal the GB/T 32918.4 output of the model for that scalar in all five layouts (C1C3C2/C1C2C3 with compressed or uncompressed C1, ASN.1); constructive generators produce all-zero C2 (message := mask) and force the A5 retry (first scalar with an all-zero mask); relays apply chains of the layout converters; the transport alters ciphertexts (byte alteration, every byte position, truncation, C1 replaced by an off-curve point / (0,0) / x >= p / another ciphertext's C1, wrong private key); for every delivered byte string the library's result (message or error) must equal the model's decryption. Four tiers compared per run. Sampling, not proof.",
   note="Trusted: harness/model/sm2m and sm3m. An altered byte string that decrypts to the original message (equivalent re-encoding) is tolerated; any other plaintext for a model-rejected input is a violation.",
   technique="deterministic simulation: scripted ephemeral-scalar reader, relay/converter chains and a faulty ciphertext transport vs reference model, ddmin replay"),
 "C08": dict(cat="exploration", design="DESIGN.md section 6 (C08)",
   text="Seeded simulation of initiator and responder nodes running the real three-message SM2 key agreement, each with either the sm2.KeyExchange object or the byte-oriented ecdh functions (SM2MQV, SM2SharedKey, SM2ZA), messages serialised to bytes on a simulated transport with faults (byte corruption, substitution of R by another valid / off-curve / (0,0) / out-of-range point, corrupted confirmation, replay from the previous session, drop followed by a restarted session). The model is an executable GB/T 32918.3 party with exact integers: verdict (error or continue), R, S values and the key of every step are compared with it on the bytes actually delivered; fault-free and restarted sessions must complete in three deliveries with equal keys; plain ECDH is checked in both directions against the model. Sampling, not proof.",
   note="Trusted: harness/model/sm2m, sm3m. Confirmation values of an ecdh-function party are computed by the harness from the library's V (no confirmation API in ecdh). Without confirmation only per-step agreement with the model party is required.",
   technique="deterministic simulation: two-party protocol on a simulated faulty transport with scripted ephemeral scalars vs an executable reference party, bounded liveness after faults stop, ddmin replay"),
 "C12": dict(cat="fault_enumeration", design="DESIGN.md section 6 (C12)",
   text="For SM2 keygen/sign/encrypt/key-exchange (init and respond), ECDH keygen and SM9 master keygen/sign/wrap/encrypt/key-exchange, each run is one operation instance on a scripted reader (adversarial 32-byte blocks 0, 1, n-2, n-1, n, n+1, 2^256-1, random in seeded order; read chunks of 1..32 bytes; the hidden pre-read decided through the verif hook). Fidelity: the scalar recovered from the output (k = s(1+d)+rd, C1 = [k]G, R = [r]G; S = [r-h]dsA and e(C,de) = e(Ppub,P2)^r for SM9) must be the first in-range block and exactly 32*(rejected+1) (+ pre-read) bytes must be consumed. Failure: the operation is re-executed once per (read index of the fault-free execution) x {error, EOF, partial+error, partial+EOF} - an exhaustive enumeration per instance (evenly sampled above 48 reads) - and must return an error and empty outputs without panicking; afterwards the same objects must work again with fidelity.",
   note="Trusted: harness/model/sm2m for SM2 recovery; for SM9 the group arithmetic of the library (through the verif-tagged re-export) is trusted for the comparison, the sampling code is what is checked. Faults are sticky (a failed source stays failed). Retry branches other than range rejection and the SM2 A5 zero-mask are not driven.",
   technique="deterministic simulation: scripted random source with exhaustive per-instance enumeration of (read index x fault kind), scalar-recovery oracle"),
 "C19": dict(cat="exploration", design="DESIGN.md section 6 (C19)",
   text="Seeded simulation of histories on one long-lived MAC object for all eight GB/T 15852.1 constructions over SM4, AES and DES/3DES: several messages in sequence, caller slices with spare capacity, and for CMAC simulator-chosen Write splits, Sum interleavings, reset and abandon-and-reuse; every tag is compared with independent models (truncation and exact length included), the caller's bytes are canary-checked, and full-size tags of messages differing in one bit of the last block must not collide. Three nodes (asm SM4, generic SM4, purego) with cross-node trace equality. Sampling, not proof.",
   note="Trusted: harness/model/macm (anchored on RFC 4493, SP 800-38B TDEA, GB/T 15852.1 appendix vectors at worker start), model SM4, Go's crypto/aes and crypto/des as block ciphers on both sides. LMAC only with key length = block length; CBCR on the empty message only for history independence (unsettled offline). Known finding cbcr-left-shift is reported, not repaired.",
   technique="deterministic simulation: seeded object-reuse/streaming histories on MAC objects vs reference models, multi-configuration nodes, ddmin replay"),
 "C20": dict(cat="exploration", design="DESIGN.md section 6 (C20)",
   text="Seeded schedules of 2-6 real goroutines on freshly created shared SM2/ECDH/SM9 keys, SM4 block and GCM AEAD objects and lazily parsed certificate pools: a baton scheduler releases exactly one parked goroutine per step (the program is the schedule), its hand-off is invisible to the Go race detector, which therefore reports every pair of conflicting accesses the library itself does not order, deterministically; every concurrent result is compared with the same call executed sequentially on private fresh objects. Sampling of schedules, not proof.",
   note="Interleaving granularity is one library operation (no two tasks are inside the library at once); assembly-only accesses are invisible to the race detector; package-level singletons are raced only in the first run of each (short-lived) worker process. Trusted: Go race detector, go1.26.8.",
   technique="deterministic simulation: seeded cooperative scheduler over real goroutines + race detector as happens-before monitor + sequential-equivalence oracle"),
}

not_applicable = {
 "C02": "SM4 block function: a pure function of (key, block) on an object immutable after construction; no state, reader, clock, peer, schedule or fault clause for a simulator to own (DESIGN.md section 7). Concurrent use of one block object is exercised under C20.",
 "C05": "SM2 curve/scalar arithmetic and point decoders: pure algebra and a pure accept-set; nothing to schedule, fail or interleave (DESIGN.md section 7).",
 "C09": "SM9 group laws, bilinearity and point decoders: pure algebra and a pure accept-set (DESIGN.md section 7). The generator-table sync.Once objects in its anchors are raced under C20.",
 "C18": "Padding schemes: pure functions of (block size, message) and a pure accept-set; no history, reader or fault clause (DESIGN.md section 7).",
}

pending = {}

def main():
    props = [json.loads(l) for l in open('/verif/properties.jsonl')]
    ids = [p['id'] for p in props]
    checks = []
    for pid in ids:
        if pid in claimed:
            c = claimed[pid]
            checks.append({
                "property_id": pid,
                "quick_cmd": f"./check.sh {pid} quick",
                "thorough_cmd": f"./check.sh {pid} thorough",
                "evidence_file": f"/verif/evidence/{pid}.json",
                "replay_cmd_template": "./check.sh replay {path}",
                "engine": "verif-sim",
                "level_claimed": {"category": c["cat"], "text": c["text"], "design_ref": c["design"]},
                "level_note": c["note"],
                "technique": c["technique"],
            })
    na = []
    for pid in ids:
        if pid in claimed:
            continue
        if pid in not_applicable:
            na.append({"property_id": pid, "reason": not_applicable[pid]})
        else:
            na.append({"property_id": pid, "reason": pending.get(pid, "not claimed yet: the simulation check for this property designed in DESIGN.md section 6 has not been built; no verdict is given")})
    commits = subprocess.run(["git", "-C", "/repo", "log", "--format=%h %s"], capture_output=True, text=True).stdout.splitlines()
    hook_commits = [l.split()[0] for l in commits if l.split(' ', 1)[1].startswith('verif-hook:')]
    m = {
        "version": 1,
        "setup_cmd": GO + "cd /verif && cp -f /repo/go.sum harness/go.sum && mkdir -p bin build && cd harness && go1.26.8 build -o /verif/bin/verif ./cmd/verif && go1.26.8 test -c -vet=off -tags verif -o /verif/build/warm-asm.test ./worker && go1.26.8 test -c -vet=off -tags verif,purego -o /verif/build/warm-purego.test ./worker && go1.26.8 test -c -vet=off -tags verif -race -o /verif/build/warm-race.test ./worker && rm -f /verif/build/warm-*.test",
        "hooks": {
            "guard": "verif",
            "enable": "go build tag: the harness builds /repo with `-tags verif` (go1.26.8 test -c -tags verif[,purego] [-race] ./worker in /verif/harness, which has `replace github.com/emmansun/gmsm => /repo`)",
            "baseline_off_cmd": "cd /repo && go test -mod=mod -json -vet=off -count=1 -timeout 25m ./...",
            "source_commits": hook_commits,
            "add_only": True,
        },
        "engines": [{
            "name": "verif-sim",
            "path": "/verif/harness",
            "serves_properties": sorted(claimed.keys()),
            "kind_free_text": "deterministic simulator with fault injection written for this repository: seeded explicit programs (operations + faults), worker processes per CPU-tier/build configuration ('nodes'), reference models as oracles, write-ahead crash attribution, ddmin minimisation, replay files; driver /verif/bin/verif (built by setup_cmd / check.sh)",
        }],
        "checks": checks,
        "not_applicable": na,
        "notes": "Technique family: deterministic simulation with fault injection. Exit codes of every check: 0 held, 1 violation (VIOLATION line + replay file under /verif/replays), 2 infrastructure trouble (never a verdict). Known findings: /verif/known_findings.json. Checks honour VERIF_SEED and VERIF_TIER; VERIF_SECS overrides the exploration time budget.",
    }
    json.dump(m, open('/verif/MANIFEST.json', 'w'), indent=1)
    print("claimed:", sorted(claimed.keys()))

main()
