#!/usr/bin/env python3
"""Regenerates the table of section 16 of DESIGN.md (between the two marker lines) from seeded/*/meta.json."""
import json, glob, re
rows = []
def key(f):
    a, b = f.split('/')[-2].split('-')
    return (a, int(b))
for f in sorted(glob.glob('/verif/seeded/*/meta.json'), key=key):
    d = json.load(open(f))
    c = d['check_result']['caught']
    first = 'caught'
    now = 'caught'
    if c.startswith('no'):
        first, now = 'MISSED', 'not caught (see text)'
    elif 'did not terminate' in c or 'infrastructure' in c:
        first = 'check broke (exit 2 / no exit)'
    elif 'first run missed' in c:
        first = 'MISSED'
    if d.get('first_run') == 'MISSED':
        first = 'MISSED'
    needs = d['needs_to_manifest'].replace('|', '/').replace('\n', ' ')
    rows.append('| %s | %s | %s | %s | %s |' % (d['id'], needs, first, now, d['check_result']['violation_class']))
tab = ['| id | what it needs to manifest | first run | now | violation class |', '|---|---|---|---|---|'] + rows
p = '/verif/DESIGN.md'
s = open(p).read()
b, e = '<!-- seeded-table-begin -->', '<!-- seeded-table-end -->'
i, j = s.index(b), s.index(e)
s = s[:i + len(b)] + '\n' + '\n'.join(tab) + '\n' + s[j:]
open(p, 'w').write(s)
n = len(rows)
print(n, 'rows;', sum('MISSED' in r.split('|')[3] for r in rows), 'first missed;', sum('not caught' in r for r in rows), 'not caught now')
