#!/bin/bash
# Runs the thorough tier of every claimed property, one after the other, from wherever this script lives
# (a vp-run snapshot of /verif), against $VP_RUN_REPO if set. Prints one line per property.
ROOT=$(cd "$(dirname "$0")/.." && pwd)
cd "$ROOT"
[ -n "${VP_RUN_REPO:-}" ] && export VERIF_REPO="$VP_RUN_REPO"
for p in ${PROPS:-C01 C03 C04 C06 C07 C08 C10 C11 C12 C13 C14 C15 C16 C17 C19 C20}; do
  for seed in ${SEEDS:-1}; do
    start=$(date +%s)
    VERIF_SEED=$seed ./check.sh $p thorough > "thorough-$p-$seed.log" 2>&1; rc=$?
    echo "$p seed=$seed exit=$rc secs=$(( $(date +%s) - start )) $(tail -1 thorough-$p-$seed.log | cut -c1-200)"
    grep -E "^(VIOLATION|violation|verif: INFRA)" "thorough-$p-$seed.log" | head -5
  done
done
