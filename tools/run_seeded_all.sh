#!/bin/bash
# Re-applies every stored seeded change to /repo (one at a time, always reverted) and runs the quick check of its property.
# Output: one line per change: <id> CAUGHT|MISSED|NOAPPLY
cd /verif || exit 2
for d in seeded/*/; do
  id=$(basename "$d"); prop=${id%%-*}
  [ -n "${1:-}" ] && [[ "$id" != $1* ]] && continue
  out=$(tools/try_seeded.sh "/verif/${d}patch.diff" "$prop" "${SECS:-25}" 2>&1)
  if echo "$out" | grep -q "does not apply"; then echo "$id NOAPPLY"; continue; fi
  if echo "$out" | grep -q "VIOLATION"; then echo "$id CAUGHT $(echo "$out" | grep -m1 '^ *[0-9]* violation' | sed 's/^ *[0-9]* violation: //' | cut -c1-90)"; else echo "$id MISSED"; fi
done
