#!/bin/bash
# usage: tools/round4.sh <PROP> [base index, default 9]  - confirm the three round-4 changes of a property in its scratch worktree
# (/tmp/mut-<PROP>, outputs /tmp/mut-<PROP>-out/{1,2,3}) and store confirmed ones as /verif/seeded/<PROP>-<base+k>.
p="$1"; base="${2:-9}"
for k in 1 2 3; do
  src=/tmp/mut-$p-out/$k
  [ -f $src/patch.diff ] || { echo "$p/$k: no patch"; continue; }
  id=$p-$((base+k))
  pkg=$(python3 -c "import json;print(json.load(open('$src/info.json'))['pkg_dir'])")
  denv=$(python3 -c "import json;print(json.load(open('$src/info.json')).get('env',''))")
  dfl=$(python3 -c "import json;print(json.load(open('$src/info.json')).get('go_test_flags',''))")
  DEMOPAT=TestDemo tools/confirm_seeded.sh $id $p /tmp/mut-$p $src "$pkg" "$denv" "$dfl" | tail -2
  [ -d seeded/$id ] && cp $src/info.json seeded/$id/info.json
done
