#!/bin/bash
# usage: tools/confirm_seeded.sh <id> <prop> <worktree> <srcdir> <demo pkg dir> [env assignments for the demo, e.g. GODEBUG=cpu.avx2=off] [extra go test flags]
# Confirms a seeded change in a scratch worktree: builds, the unedited suite passes (apart from the 3 known pkcs7 failures),
# the demonstration FAILS with the change and PASSES without it. On success copies patch+demo into /verif/seeded/<id>/ and writes meta.json.
set -u
id="$1"; prop="$2"; wt="$3"; src="$4"; pkg="$5"; denv="${6:-}"; dflags="${7:-}"
export GOFLAGS=-mod=mod GOPROXY=off GOSUMDB=off
log=$(mktemp)
cd "$wt" || exit 2
git checkout -q -- . ; git clean -fdq
git apply "$src/patch.diff" || { echo "$id: patch does not apply"; exit 1; }
go build ./... >>$log 2>&1 || { echo "$id: does not build"; git checkout -q -- .; exit 1; }
demo=$(ls "$src"/demo*_test.go 2>/dev/null | head -1)
mkdir -p "$pkg"; cp "$demo" "$pkg/zz_seeded_demo_test.go"
env $denv go test $dflags -count=1 -run "${DEMOPAT:-Demo|C[0-9][0-9]|Seeded|Test}" "./$pkg/" >>$log 2>&1 ; with=$?
rm -f "$pkg/zz_seeded_demo_test.go"
suite=$(go test -count=1 ./... 2>&1 | grep -E "^(FAIL|--- FAIL|ok|panic)" | grep -v "^ok" | grep -v -E "TestSign \(|TestSignWithDigest|TestSignWithOpenSSLAndVerify|^FAIL$|FAIL\sgithub.com/emmansun/gmsm/pkcs7" )
git checkout -q -- . ; git clean -fdq
mkdir -p "$pkg"; cp "$demo" "$pkg/zz_seeded_demo_test.go"
env $denv go test $dflags -count=1 -run "${DEMOPAT:-Demo|C[0-9][0-9]|Seeded|Test}" "./$pkg/" >>$log 2>&1 ; without=$?
rm -f "$pkg/zz_seeded_demo_test.go"
git checkout -q -- . ; git clean -fdq
echo "$id: demo with change exit=$with (want !=0), without exit=$without (want 0), unexpected suite failures: [${suite}]"
if [ $with -ne 0 ] && [ $without -eq 0 ] && [ -z "$suite" ]; then
  mkdir -p /verif/seeded/$id && cp "$src/patch.diff" /verif/seeded/$id/ && cp "$demo" /verif/seeded/$id/ && cp "$src/README.md" /verif/seeded/$id/README.md 2>/dev/null
  echo "CONFIRMED $id"
  exit 0
fi
cp $log /tmp/confirm-$id.log
exit 1
