#!/bin/bash
# Like run_seeded_all.sh, but for a vp-run snapshot: applies every stored seeded change to the snapshot's copy of the
# library ($VP_RUN_REPO, never /repo), runs the quick check of its property from the snapshot of /verif, reverts.
# Changes written against C06 / C07 that are first-use races are run against C20 (see their meta.json).
# Output: one line per change: <id> CAUGHT|MISSED|NOAPPLY
ROOT=$(cd "$(dirname "$0")/.." && pwd)
cd "$ROOT" || exit 2
REPO="${VP_RUN_REPO:?needs --with-repo}"
export VERIF_REPO="$REPO"
for d in seeded/*/; do
  id=$(basename "$d"); prop=${id%%-*}
  [ -n "${1:-}" ] && [[ "$id" != $1* ]] && continue
  [ -n "${ONLY:-}" ] && ! [[ "$id" =~ $ONLY ]] && continue
  case "$id" in C06-7|C07-7) prop=C20;; esac
  if ! git -C "$REPO" apply --check "$ROOT/${d}patch.diff" 2>/dev/null; then echo "$id NOAPPLY"; continue; fi
  git -C "$REPO" apply "$ROOT/${d}patch.diff"
  out=$(VERIF_SECS="${SECS:-30}" ./check.sh "$prop" quick 2>&1)
  git -C "$REPO" checkout -q -- . ; git -C "$REPO" clean -fdq
  if echo "$out" | grep -q "^VIOLATION"; then echo "$id CAUGHT($prop) $(echo "$out" | grep -m1 '^violation' | sed 's/^violation: //' | cut -c1-100)"; else echo "$id MISSED($prop) $(echo "$out" | tail -1 | cut -c1-120)"; fi
done
