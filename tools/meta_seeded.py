#!/usr/bin/env python3
"""usage: meta_seeded.py <id> <prop> <demo env/flags or -> <caught: yes|no|partial> <violation class seen> <needs...>"""
import json, sys, os
id_, prop, denv, caught, vclass = sys.argv[1:6]
needs = " ".join(sys.argv[6:])
d = "/verif/seeded/%s" % id_
meta = {
 "id": id_, "property": prop,
 "breaks": "property %s (see README.md for the change)" % prop,
 "needs_to_manifest": needs,
 "origin": "fresh sub-agent given only the property text and a scratch worktree of /repo (nothing from /verif)",
 "confirmed": {
   "how": "tools/confirm_seeded.sh in the scratch worktree: git apply patch.diff; go build ./...; go test -count=1 ./... (only the 3 baseline always-fail pkcs7 tests fail); demonstration test FAILS with the change and PASSES without it",
   "demo_env_or_flags": None if denv == "-" else denv,
 },
 "check_result": {
   "command": "tools/try_seeded.sh seeded/%s/patch.diff %s <secs>  (git -C /repo apply; ./check.sh %s quick; git -C /repo checkout -- .)" % (id_, prop, prop),
   "caught": caught, "violation_class": vclass,
 },
}
json.dump(meta, open(os.path.join(d, "meta.json"), "w"), indent=1)
print("meta", id_)
