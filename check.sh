#!/bin/bash
# usage: ./check.sh <PROP> [quick|thorough]   |   ./check.sh replay <file>
# Builds the driver if needed (offline), then runs the check against /repo's current working tree.
set -u
ROOT=$(cd "$(dirname "$0")" && pwd)
export VERIF_ROOT="$ROOT"
cd "$ROOT" || exit 2
export GOFLAGS=-mod=mod GOPROXY=off GOSUMDB=off GOTOOLCHAIN=local
export PATH="$PATH:/opt/veriftools/go1.26.8/bin:/usr/local/go/bin"
mkdir -p bin build
cp -f /repo/go.sum harness/go.sum 2>/dev/null
if ! (cd harness && go1.26.8 build -o "$ROOT/bin/verif" ./cmd/verif) ; then
  echo "check.sh: cannot build the driver" >&2
  exit 2
fi
if [ "${1:-}" = "replay" ]; then
  exec bin/verif replay "$2"
fi
if [ "${1:-}" = "determinism" ]; then
  exec bin/verif determinism "$2"
fi
exec bin/verif check "$1" "${2:-quick}"
